"""Writer for /verif/evidence/<id>.json (EVIDENCE.schema.json)."""

import json
import os

HERE = os.path.dirname(os.path.dirname(os.path.abspath(__file__)))


def write(prop, ctx, mod, wall, new, reproduced, reasons):
    cov = {
        "evaluations": int(ctx.evaluations),
        "distinct_nontrivial": int(len(ctx.distinct)),
        "trivial_evaluations": int(ctx.trivial),
        "rule": getattr(mod, "RULE", ""),
        "samples": ctx.samples[:6] or ["(no sample recorded)"],
        "observation_tables": ctx.tables,
        "hook_evaluations": ctx.hooks,
        "anchor_reach": {k: {"lines_hit": len(v[0]), "lines_total": v[1]} for k, v in sorted(ctx.reach.items())},
        "known_findings_reproduced": [{"key": k["key"], "what": k["what"], "times": v["count"]} for k, v in reproduced],
        "new_violation_keys": [k for k, _ in new],
        "inconclusive_reasons": reasons,
        "shards": ctx.extra.get("shards"),
        "exhaustive": False,
    }
    if hasattr(mod, "coverage_extra"):
        try:
            cov.update(mod.coverage_extra(ctx) or {})
        except Exception as exc:  # pragma: no cover
            cov["coverage_extra_error"] = repr(exc)
    doc = {
        "property_id": prop,
        "tier": ctx.tier,
        "seed": int(ctx.seed),
        "level": getattr(mod, "LEVEL", "exploration"),
        "coverage": cov,
        "assumptions": list(getattr(mod, "ASSUMPTIONS", [])),
        "wall_s": round(float(wall), 3),
        "violations": len(new),
    }
    os.makedirs(os.path.join(HERE, "evidence"), exist_ok=True)
    path = os.path.join(HERE, "evidence", "%s.json" % prop)
    tmp = path + ".tmp"
    with open(tmp, "w") as fh:
        json.dump(doc, fh, indent=1, sort_keys=False, default=repr)
    os.replace(tmp, path)
    return path
