"""Workload generators and shape facts for the 16 isotherm models.

The facts stated here (validity range, saturation capacity, Henry slope, monotone parameter
region) are derived from the *published* model equations, written independently of the
pyGAPS implementation; they are what C10/C11/C12/C13 judge the real functions against.
"""

import math

from pgverif.gen import log_uniform

R_GAS = 8.31446261815324  # exact (N_A * k_B), the value scipy.constants carries

MODEL_NAMES = [
    "Henry", "Langmuir", "DSLangmuir", "TSLangmuir", "BET", "GAB", "Freundlich", "DA", "DR", "Quadratic", "TemkinApprox", "Virial", "Toth",
    "JensenSeaton", "FHVST", "WVST"
]
PRESSURE_EXPLICIT = {"Virial", "FHVST", "WVST"}
NUMERIC_INVERSE = {"TSLangmuir", "TemkinApprox", "JensenSeaton", "Virial", "FHVST", "WVST"}
HAS_SPREADING = ["Henry", "Langmuir", "DSLangmuir", "TSLangmuir", "Quadratic", "BET", "TemkinApprox", "Toth", "JensenSeaton", "GAB", "Freundlich", "DR", "DA"]
IAST_MODELS = ["Henry", "Langmuir", "DSLangmuir", "TSLangmuir", "Quadratic", "BET", "TemkinApprox", "Toth", "JensenSeaton"]
QUAD_SPREADING = {"Toth", "JensenSeaton", "DR", "DA"}
WELL_POSED_FIT = ["Henry", "Langmuir", "DSLangmuir", "BET", "Freundlich", "DR", "DA", "TemkinApprox", "Toth", "JensenSeaton"]
RELATIVE_PRESSURE_MODELS = {"DR", "DA", "BET", "GAB"}  # p is p/p0 (DR/DA need p <= 1)

TYPED = [1.0, 2.0, 0.5, 10.0, 100.0, 0.1, 5.0]


def _pos(r, typed, lo=1e-3, hi=1e3):
    if typed:
        return r.choice([t for t in TYPED if lo <= t <= hi] or [lo])
    return round(log_uniform(r, lo, hi), 8)


def random_params(name, r, typed=None, monotone=True):
    """Parameter vector inside the declared bounds (and, if monotone, in the monotone region)."""
    if typed is None:
        typed = r.random() < 0.15
    p = lambda lo=1e-3, hi=1e3: _pos(r, typed, lo, hi)
    if name == "Henry":
        return {"K": p()}
    if name == "Langmuir":
        return {"K": p(), "n_m": p(1e-2, 1e2)}
    if name == "DSLangmuir":
        return {"n_m1": p(1e-2, 1e2), "K1": p(), "n_m2": p(1e-2, 1e2), "K2": p()}
    if name == "TSLangmuir":
        return {"n_m1": p(1e-2, 1e2), "n_m2": p(1e-2, 1e2), "n_m3": p(1e-2, 1e2), "K1": p(), "K2": p(), "K3": p()}
    if name == "BET":
        return {"n_m": p(1e-2, 1e2), "C": p(1e-1, 1e3), "N": round(r.uniform(0.02, 0.98), 6) if not typed else r.choice([0.5, 0.1, 0.9])}
    if name == "GAB":
        return {"n_m": p(1e-2, 1e2), "C": p(1e-1, 1e3), "K": round(r.uniform(0.02, 0.98), 6) if not typed else r.choice([0.5, 0.1, 0.9])}
    if name == "Freundlich":
        return {"K": p(), "m": p(0.2, 10)}
    if name == "DR":
        return {"n_m": p(1e-2, 1e2), "e": p(2e2, 2e4)}
    if name == "DA":
        return {"n_m": p(1e-2, 1e2), "e": p(2e2, 2e4), "m": round(r.uniform(1.0, 3.0), 6) if not typed else r.choice([1.0, 2.0, 3.0, 1.5])}
    if name == "Quadratic":
        if monotone:
            return {"n_m": p(1e-2, 1e2), "Ka": p(1e-3, 1e2), "Kb": p(1e-3, 1e2)}
        return {"n_m": p(1e-2, 1e2), "Ka": round(r.uniform(-5, 50), 6), "Kb": round(r.uniform(-5, 50), 6)}
    if name == "TemkinApprox":
        return {"n_m": p(1e-2, 1e2), "K": p(), "tht": round(r.uniform(0.0, 3.0 if monotone else 12.0), 6) if not typed else r.choice([0.0, 1.0, 2.0, 0.5])}
    if name == "Toth":
        return {"n_m": p(1e-2, 1e2), "K": p(), "t": p(0.2, 5)}
    if name == "JensenSeaton":
        return {"K": p(), "a": p(1e-2, 1e2), "b": p(1e-3, 1e1), "c": p(0.3, 5)}
    if name == "Virial":
        return {"K": p(1e-2, 1e2), "A": round(r.uniform(-0.5, 1.0), 6), "B": round(r.uniform(-0.05, 0.1), 6), "C": round(r.uniform(0.0, 0.01), 6)}
    if name == "FHVST":
        return {"n_m": p(1e-1, 1e2), "K": p(1e-2, 1e2), "a1v": round(r.uniform(-0.5, 3.0), 6)}
    if name == "WVST":
        return {"n_m": p(1e-1, 1e2), "K": p(1e-2, 1e2), "L1v": round(r.uniform(0.3, 3.0), 6), "Lv1": round(r.uniform(0.3, 3.0), 6)}
    raise KeyError(name)


def make_model(name, params, pressure_range=None, loading_range=None, rmse=None, temperature=77.355):
    """Instantiate the real model class with given parameters."""
    from pygaps.modelling import get_isotherm_model
    kw = {"parameters": dict(params)}
    if pressure_range is not None:
        kw["pressure_range"] = tuple(pressure_range)
    if loading_range is not None:
        kw["loading_range"] = tuple(loading_range)
    if rmse is not None:
        kw["rmse"] = rmse
    m = get_isotherm_model(name, **kw)
    m.__init_parameters__({"temperature": temperature})
    return m


def same_params_model(name):
    """Another model with the same parameter names (so that only the name differs)."""
    return {"BET": None, "DR": None, "Langmuir": None}.get(name)


# ---------------------------------------------------------------------------- shape facts


def saturation(name, P):
    if name == "Langmuir":
        return P["n_m"]
    if name == "DSLangmuir":
        return P["n_m1"] + P["n_m2"]
    if name == "TSLangmuir":
        return P["n_m1"] + P["n_m2"] + P["n_m3"]
    if name in ("DR", "DA", "Toth", "TemkinApprox", "FHVST", "WVST"):
        return P["n_m"]
    if name == "Quadratic":
        return 2 * P["n_m"]
    return None


def henry_slope(name, P):
    if name in ("Henry", "JensenSeaton", "Virial", "FHVST", "WVST"):
        return P["K"]
    if name in ("Langmuir", "Toth", "TemkinApprox"):
        return P["n_m"] * P["K"]
    if name == "DSLangmuir":
        return P["n_m1"] * P["K1"] + P["n_m2"] * P["K2"]
    if name == "TSLangmuir":
        return P["n_m1"] * P["K1"] + P["n_m2"] * P["K2"] + P["n_m3"] * P["K3"]
    if name == "BET":
        return P["n_m"] * P["C"]
    if name == "GAB":
        return P["n_m"] * P["C"] * P["K"]
    if name == "Quadratic":
        return P["n_m"] * P["Ka"]
    return None


def is_monotone(name, P):
    if name == "Quadratic":
        return P["Ka"] >= 0 and P["Kb"] >= 0
    if name == "TemkinApprox":
        return abs(P["tht"]) <= 3.0
    return True


def reference_loading(name, P, p, T=77.355):
    """Published model equation n(p) for the loading-explicit models (independent of pyGAPS)."""
    if name == "Henry":
        return P["K"] * p
    if name == "Langmuir":
        return P["n_m"] * P["K"] * p / (1 + P["K"] * p)
    if name == "DSLangmuir":
        return P["n_m1"] * P["K1"] * p / (1 + P["K1"] * p) + P["n_m2"] * P["K2"] * p / (1 + P["K2"] * p)
    if name == "TSLangmuir":
        return sum(P["n_m%d" % i] * P["K%d" % i] * p / (1 + P["K%d" % i] * p) for i in (1, 2, 3))
    if name == "BET":
        return P["n_m"] * P["C"] * p / ((1 - P["N"] * p) * (1 - P["N"] * p + P["C"] * p))
    if name == "GAB":
        kp = P["K"] * p
        return P["n_m"] * P["C"] * kp / ((1 - kp) * (1 - kp + P["C"] * kp))
    if name == "Freundlich":
        return P["K"] * p**(1 / P["m"])
    if name == "DR":
        return P["n_m"] * math.exp(-(R_GAS * T * math.log(1 / p) / P["e"])**2) if p > 0 else 0.0
    if name == "DA":
        return P["n_m"] * math.exp(-(R_GAS * T * math.log(1 / p) / P["e"])**P["m"]) if p > 0 else 0.0
    if name == "Quadratic":
        return P["n_m"] * (P["Ka"] + 2 * P["Kb"] * p) * p / (1 + P["Ka"] * p + P["Kb"] * p * p)
    if name == "TemkinApprox":
        L = P["K"] * p / (1 + P["K"] * p)
        return P["n_m"] * (L + P["tht"] * L * L * (L - 1))
    if name == "Toth":
        kp = P["K"] * p
        return P["n_m"] * kp / (1 + kp**P["t"])**(1 / P["t"])
    if name == "JensenSeaton":
        kp = P["K"] * p
        return kp / (1 + (kp / (P["a"] * (1 + P["b"] * p)))**P["c"])**(1 / P["c"])
    raise KeyError(name)


def reference_pressure(name, P, n):
    """Published p(n) for the pressure-explicit models."""
    if name == "Virial":
        return n / P["K"] * math.exp(P["A"] * n + P["B"] * n**2 + P["C"] * n**3)
    if name == "FHVST":
        th = n / P["n_m"]
        return (P["n_m"] / P["K"]) * (th / (1 - th)) * math.exp(P["a1v"]**2 * th / (1 + P["a1v"] * th))
    if name == "WVST":
        th = n / P["n_m"]
        L1v, Lv1 = P["L1v"], P["Lv1"]
        a = (1 - Lv1) * th
        b = (1 - L1v) * th
        coef = L1v * (1 - a) / (L1v + b)
        ex = -((Lv1 * a) / (1 - a)) - (b / (L1v + b))
        return (P["n_m"] / P["K"] * th / (1 - th)) * coef * math.exp(ex)
    raise KeyError(name)


def pressure_window(name, P, r=None, max_cov=0.98):
    """(p_lo, p_hi): validity range for loading-explicit models, with margins."""
    if name in ("DR", "DA"):
        return (1e-6, 1.0)
    if name == "BET":
        return (1e-6, 0.98 / P["N"])
    if name == "GAB":
        return (1e-6, 0.98 / P["K"])
    sat = saturation(name, P)
    hs = henry_slope(name, P)
    if name == "Freundlich":
        return (1e-6, 1e3)
    if name in ("Henry", "JensenSeaton"):
        return (1e-6, 1e3)
    # saturating models: find p where coverage reaches max_cov by bisection on the reference equation
    lo, hi = 1e-12, 1e12
    target = max_cov * sat
    def f(p):
        try:
            return reference_loading(name, P, p)
        except (OverflowError, ZeroDivisionError):
            return sat

    if f(hi) < target:
        return (1e-6 / max(hs, 1e-12) * sat, hi if False else 1e6)
    for _ in range(200):
        mid = math.sqrt(lo * hi)
        if f(mid) < target:
            lo = mid
        else:
            hi = mid
    p_hi = lo
    return (p_hi * 1e-7, p_hi)


def loading_window(name, P, max_cov=0.95):
    """(n_lo, n_hi) for pressure-explicit models: below saturation and before any turning point."""
    if name == "Virial":
        n_hi = 50.0
    else:
        n_hi = max_cov * P["n_m"]
        if name == "FHVST" and P["a1v"] < 0:
            n_hi = min(n_hi, 0.9 * P["n_m"] / abs(P["a1v"]))
    # locate the first turning point of p(n) on a fine grid
    N = 4000
    prev = 0.0
    turn = None
    for i in range(1, N + 1):
        n = n_hi * i / N
        try:
            p = reference_pressure(name, P, n)
        except (OverflowError, ZeroDivisionError, ValueError):
            turn = n_hi * (i - 1) / N
            break
        if not (p > prev) or math.isinf(p) or p > 1e12:
            turn = n_hi * (i - 1) / N
            break
        prev = p
    if turn is not None:
        n_hi = 0.9 * turn
    return (n_hi * 1e-6, n_hi)


def sample_pressures(name, P, r, n, sort=True):
    lo, hi = pressure_window(name, P)
    xs = [log_uniform(r, lo, hi) for _ in range(n)]
    return sorted(xs) if sort else xs


def sample_loadings(name, P, r, n, sort=True):
    lo, hi = loading_window(name, P)
    if hi <= 0:
        return []
    xs = [log_uniform(r, max(lo, hi * 1e-6), hi) for _ in range(n)]
    return sorted(xs) if sort else xs


def henry_probe_pressure(name, P):
    """A pressure at which the first-order deviation from Henry's law is <= ~1e-8 (relative)."""
    eps = 1e-8
    if name == "Henry":
        return 1.0
    if name == "Langmuir":
        return eps / P["K"]
    if name == "DSLangmuir":
        return eps / max(P["K1"], P["K2"])
    if name == "TSLangmuir":
        return eps / max(P["K1"], P["K2"], P["K3"])
    if name == "BET":
        return eps / (P["N"] + P["C"])
    if name == "GAB":
        return eps / (P["K"] * (1 + P["C"]))
    if name == "Quadratic":
        ka, kb = abs(P["Ka"]), abs(P["Kb"])
        cands = [1.0]
        if ka > 0:
            cands.append(eps / ka)
            if kb > 0:
                cands.append(eps * ka / kb)
        if kb > 0:
            cands.append(math.sqrt(eps / kb))
        return min(cands)
    if name == "TemkinApprox":
        return eps / (P["K"] * (1 + abs(P["tht"])))
    if name == "Toth":
        # n = n_m K p (1 + (Kp)^t)^(-1/t) ~ n_m K p (1 - (Kp)^t / t)
        return (eps * P["t"])**(1.0 / P["t"]) / P["K"]
    if name == "JensenSeaton":
        # n ~ K p (1 - (Kp/a)^c / c)
        return min((eps * P["c"])**(1.0 / P["c"]) * P["a"] / P["K"], eps / P["b"])
    raise KeyError(name)
