"""Seeded workload ingredients shared by the checks (DESIGN.md section 2)."""

import math
import random

from pgverif.ref import units as RU

# everyday cases + deliberately p0 far from 1 bar (hides bar/relative mix-ups otherwise)
FIXED_CONTEXTS = [
    ("nitrogen", 77.355),
    ("nitrogen", 90.0),
    ("argon", 87.3),
    ("carbon dioxide", 250.0),
    ("water", 298.15),
    ("nitrogen", 70.0),
    ("methane", 150.0),
    ("n-butane", 273.15),
]


def rng(seed, *salt):
    return random.Random("%s/%s" % (seed, "/".join(str(s) for s in salt)))


_BACKEND = None


def backend_adsorbates():
    """[(name, backend_name)] of shipped adsorbates that have a CoolProp backend."""
    global _BACKEND
    if _BACKEND is None:
        import pygaps
        seen, out = set(), []
        for a in pygaps.ADSORBATE_LIST:
            b = a.properties.get("backend_name")
            if b and a.name not in seen:
                seen.add(a.name)
                out.append((a.name, b))
        _BACKEND = out
    return _BACKEND


def backend_of(name):
    import pygaps
    return pygaps.Adsorbate.find(name).properties["backend_name"]


def subcritical_T(backend_name, r, margin=0.02):
    fl = RU.fluid(backend_name)
    lo, hi = fl.t_triple(), fl.t_crit()
    span = hi - lo
    return round(lo + span * (margin + (1 - 2 * margin) * r.random()), 7)  # (temperatures with digits beyond the millikelvin)


# shipped records whose stored molar mass differs from the backend's (by 35 % and 2e-4): whichever of the two a conversion uses shows
STORED_VS_BACKEND_CONTEXTS = [("difluoromethane", 250.0), ("fluorine", 85.0)]
# the last two percent below the critical temperature (where equations of state are stiff and shortcuts tempting)
NEAR_CRITICAL_CONTEXTS = [("nitrogen", 124.3), ("carbon dioxide", 300.2)]


USER_VAPOUR = "verif-user-vapour"
_USER_VAPOUR_PROPS = {"molar_mass": 72.15, "saturation_pressure": 68300.0, "liquid_density": 0.626, "gas_density": 0.00205}


def user_vapour():
    """(name, reference fluid) of a registered user-defined vapour without thermodynamic backend: every constant is a stored property."""
    import pygaps
    try:
        pygaps.Adsorbate.find(USER_VAPOUR)
    except Exception:
        pygaps.Adsorbate(USER_VAPOUR, store=True, formula="X", surface_tension=15.5, cross_sectional_area=0.45, enthalpy_liquefaction=26.4,
                         liquid_molar_density=_USER_VAPOUR_PROPS["liquid_density"] / _USER_VAPOUR_PROPS["molar_mass"],
                         gas_molar_density=_USER_VAPOUR_PROPS["gas_density"] / _USER_VAPOUR_PROPS["molar_mass"], **_USER_VAPOUR_PROPS)
    return USER_VAPOUR, RU.UserFluid(_USER_VAPOUR_PROPS["molar_mass"], _USER_VAPOUR_PROPS["saturation_pressure"], _USER_VAPOUR_PROPS["liquid_density"], _USER_VAPOUR_PROPS["gas_density"])


def reference_fluid(ads):
    return user_vapour()[1] if ads == USER_VAPOUR else RU.fluid(backend_of(ads))


def contexts(tier, seed, n_quick=5):
    """(adsorbate name, temperature K) pairs."""
    r = rng(seed, "ctx")
    out = list(FIXED_CONTEXTS[:n_quick]) + list(STORED_VS_BACKEND_CONTEXTS) + list(NEAR_CRITICAL_CONTEXTS)
    ads = backend_adsorbates()
    if tier == "quick":
        for _ in range(2):
            name, b = ads[r.randrange(len(ads))]
            out.append((name, subcritical_T(b, r)))
    else:
        out = list(FIXED_CONTEXTS)
        for name, b in ads:
            for _ in range(4):
                out.append((name, subcritical_T(b, r)))
    return out


def log_uniform(r, lo, hi):
    return math.exp(r.uniform(math.log(lo), math.log(hi)))


def material_props(r):
    """Random positive density (g/cm3) and molar mass (g/mol)."""
    return {"density": round(log_uniform(r, 0.05, 20.0), 6), "molar_mass": round(log_uniform(r, 2.0, 5000.0), 5)}


def increasing(r, n, lo=1e-3, hi=1.0, log=False):
    """n strictly increasing values in (lo, hi)."""
    if log:
        xs = sorted(log_uniform(r, lo, hi) for _ in range(n))
    else:
        xs = sorted(r.uniform(lo, hi) for _ in range(n))
    # enforce strictness with a relative separation
    out = []
    for x in xs:
        if out and x <= out[-1] * (1 + 1e-6) + 1e-12:
            x = out[-1] * (1 + 1e-3) + 1e-9
        out.append(x)
    return out


# ---------------------------------------------------------------------------------------
# Isotherm specifications (JSON-able) and builders through different construction routes
# ---------------------------------------------------------------------------------------

RESERVED_KEYS = {
    "material", "adsorbate", "temperature", "m", "t", "a", "_material", "_adsorbate", "_temperature", "pressure_mode",
    "pressure_unit", "loading_basis", "loading_unit", "material_basis", "material_unit", "temperature_unit", "data_raw",
    "l_interpolator", "p_interpolator", "loading_key", "pressure_key", "other_keys", "pressure", "loading",
    "isotherm_data", "branch", "model", "param_guess", "param_bounds", "optimization_params", "verbose", "plot_fit", "name",
    "properties", "iso_type", "id", "iso_id"
}

DEFAULT_UNITS = {
    "pressure_mode": "absolute",
    "pressure_unit": "bar",
    "loading_basis": "molar",
    "loading_unit": "mmol",
    "material_basis": "mass",
    "material_unit": "g",
    "temperature_unit": "K",
}


_TEMP_TOGGLE = [0]


def temp_kw(T_kelvin, celsius=None):
    """temperature= / temperature_unit= keywords for an isotherm at T_kelvin; every other call records it in degrees Celsius."""
    if celsius is None:
        _TEMP_TOGGLE[0] += 1
        celsius = _TEMP_TOGGLE[0] % 2 == 0
    return {"temperature": T_kelvin - 273.15, "temperature_unit": "°C"} if celsius else {"temperature": T_kelvin, "temperature_unit": "K"}


def random_units(r, relative_ok=True, fraction_ok=True):
    pm, pu = r.choice(RU.PRESSURE_REPR if relative_ok else RU.PRESSURE_REPR[:8])
    lreps = RU.LOADING_REPR if fraction_ok else RU.LOADING_REPR[:25]
    lb, lu = r.choice(lreps)
    mb, mu = r.choice(RU.MATERIAL_REPR)
    return {
        "pressure_mode": pm,
        "pressure_unit": pu,
        "loading_basis": lb,
        "loading_unit": lu,
        "material_basis": mb,
        "material_unit": mu,
        "temperature_unit": r.choice(RU.TEMPERATURE_REPR),
    }


def point_data(r, n, two_branches=None, decimals=6, pmax=1.0):
    """Monotone adsorption branch (+ optional desorption branch going back down)."""
    if two_branches is None:
        two_branches = r.random() < 0.5 and n >= 4
    n_ads = n if not two_branches else max(2, n - max(2, n // 3))
    p_ads = increasing(r, n_ads, 1e-3 * pmax, pmax * 0.98, log=r.random() < 0.3)
    l_ads = increasing(r, n_ads, 0.01, 20.0)
    p, l, b = list(p_ads), list(l_ads), [0] * n_ads
    if two_branches:
        n_des = n - n_ads
        p_des = sorted(increasing(r, n_des, 1e-3 * pmax, p_ads[-1] * 0.999), reverse=True)
        l_des = sorted(increasing(r, n_des, l_ads[0], l_ads[-1] * 1.05), reverse=True)
        p += p_des
        l += l_des
        b += [1] * n_des
    p = [round(x, decimals) for x in p]
    l = [round(x, decimals) for x in l]
    # rounding may create ties: nudge to keep branches strictly monotone
    for i in range(1, len(p)):
        if b[i] == b[i - 1]:
            step = 10.0**(-decimals)
            if b[i] == 0 and p[i] <= p[i - 1]:
                p[i] = round(p[i - 1] + step, decimals)
            if b[i] == 1 and p[i] >= p[i - 1]:
                p[i] = round(p[i - 1] - step, decimals)
            if b[i] == 0 and l[i] <= l[i - 1]:
                l[i] = round(l[i - 1] + step, decimals)
            if b[i] == 1 and l[i] >= l[i - 1]:
                l[i] = round(l[i - 1] - step, decimals)
    return p, l, b


TEXTS = ["plain", "with space", "ünïcödé-θ", "semi;colon", "a/b", "x" * 40, "MiXeD Case", "tab\tinside", "quote'inside"]


def json_metadata(r, n=None, rich=True):
    """JSON-representable metadata under non-reserved keys."""
    n = r.randint(0, 6) if n is None else n
    out = {}
    pool = [
        lambda: r.choice(TEXTS),
        lambda: r.choice(["3", "3.0", "1e5", "True", "false", "None", "nan", "[1, 2]", " 12 ", ""]),
        lambda: r.randint(-5, 1000),
        lambda: round(r.uniform(-10, 10), r.randint(0, 8)),
        lambda: r.choice([1e-300, 1e300, -0.0, 0.1 + 0.2, 1 / 3]),
        lambda: r.random() < 0.5,
        lambda: None,
        lambda: [r.randint(0, 9) for _ in range(r.randint(0, 4))],
        lambda: [r.choice(TEXTS), r.randint(0, 9), round(r.random(), 3)],
        lambda: {"k%d" % i: r.randint(0, 9) for i in range(r.randint(1, 3))},
    ]
    if not rich:
        pool = pool[:1] + pool[2:4] + pool[5:6]
    for i in range(n):
        key = r.choice(["user", "date", "lab", "comment", "project", "machine", "activation_temperature", "iso_ref", "note_%d" % i, "Ключ", "key with space", "_flags", "__version__", "_id"])
        if key in RESERVED_KEYS:
            continue
        out[key] = r.choice(pool)()
    return out


def point_spec(r, n=None, units=None, two_branches=None, extras=None, meta=None, ads=None, T=None, material_props=None, decimals=6):
    n = r.randint(3, 30) if n is None else n
    units = dict(DEFAULT_UNITS) if units is None else dict(units)
    pmax = 1.0 if units["pressure_mode"] == "relative" else 100.0 if units["pressure_mode"] == "relative%" else 1.0
    p, l, b = point_data(r, n, two_branches, decimals, pmax=pmax)
    if ads is None:
        ads, T0 = r.choice(FIXED_CONTEXTS)
        T = T0 if T is None else T
    spec = {
        "cls": "point",
        "material": "verif-mat-%d" % r.randrange(10**6),
        "adsorbate": ads,
        "temperature": T if T is not None else 300.0,
        "units": units,
        "pressure": p,
        "loading": l,
        "branch": b,
        "extra": {},
        "meta": meta if meta is not None else {},
    }
    if spec["units"]["temperature_unit"] != "K":
        spec["temperature"] = round(spec["temperature"] - 273.15, 6)
    if material_props:
        spec["material"] = dict(name=spec["material"], **material_props)
    if extras is None:
        extras = r.random() < 0.4
    if extras:
        spec["extra"]["enthalpy"] = [round(r.uniform(5, 60), 5) for _ in p]
        if r.random() < 0.5:
            spec["extra"]["Aux col"] = [round(r.uniform(-1, 1), 5) for _ in p]
    return spec


def _kw(spec):
    import copy
    kw = dict(spec["units"])
    kw.update(copy.deepcopy(spec["meta"]))
    kw["material"] = copy.deepcopy(spec["material"])
    kw["adsorbate"] = spec["adsorbate"]
    kw["temperature"] = spec["temperature"]
    return kw


POINT_ROUTES = ["lists", "ndarray", "tuples", "df", "df_offset", "df_perm", "df_str", "df_dup", "df_cols", "df_branchcol", "df_boolbranch"]


def build_point(spec, route="df", branch="explicit"):
    """Build a real PointIsotherm from a spec through one of the construction routes.

    branch: 'explicit' (the spec's marks are passed), 'guess' (left to pyGAPS).
    """
    import numpy
    import pandas
    import pygaps
    kw = _kw(spec)
    p, l, b = spec["pressure"], spec["loading"], spec["branch"]
    n = len(p)
    if branch == "guess":
        barg = "guess"
    elif all(x == 0 for x in b):
        barg = "ads" if route in ("lists", "df", "df_str") else [False] * n
    elif all(x == 1 for x in b):
        barg = "des" if route in ("lists", "df", "df_str") else [True] * n
    else:
        barg = [bool(x) for x in b] if route != "ndarray" else numpy.array(b, dtype=bool)
    if route in ("lists", "ndarray", "tuples"):
        if spec["extra"]:
            raise ValueError("array routes cannot carry extra columns")
        conv = {"lists": list, "ndarray": lambda x: numpy.array(x, dtype=float), "tuples": tuple}[route]
        return pygaps.PointIsotherm(pressure=conv(p), loading=conv(l), branch=barg, **kw)
    pk, lk = ("pressure", "loading") if route != "df_cols" else ("P [x]", "uptake")
    cols = {pk: list(p), lk: list(l)}
    for k, v in spec["extra"].items():
        cols[k] = list(v)
    if route == "df_cols":
        # different column order as well
        cols = {k: cols[k] for k in reversed(list(cols))}
    df = pandas.DataFrame(cols)
    if route == "df_offset":
        df.index = range(5, 5 + n)
    elif route == "df_perm":
        idx = list(range(n))
        random.Random(n).shuffle(idx)
        df.index = idx
    elif route == "df_str":
        df.index = ["row%03d" % i for i in range(n)]
    elif route == "df_dup":
        df.index = [7] * n  # repeated row labels (e.g. several files concatenated without ignore_index)
    if route == "df_branchcol" and branch != "guess":
        df["branch"] = [int(x) for x in b]
        return pygaps.PointIsotherm(isotherm_data=df, pressure_key=pk, loading_key=lk, **kw)
    if route == "df_boolbranch" and branch != "guess":
        df["branch"] = [bool(x) for x in b]
        return pygaps.PointIsotherm(isotherm_data=df, pressure_key=pk, loading_key=lk, **kw)
    return pygaps.PointIsotherm(isotherm_data=df, pressure_key=pk, loading_key=lk, branch=barg, **kw)


def build_base(spec):
    from pygaps.core.baseisotherm import BaseIsotherm
    return BaseIsotherm(**_kw(spec))


def copy_point(iso):
    """Reconstructed copy of a PointIsotherm (deepcopy fails on the CoolProp handle)."""
    import copy
    import pygaps
    d = copy.deepcopy(iso.to_dict())
    return pygaps.PointIsotherm(isotherm_data=iso.data_raw.copy(deep=True), pressure_key=iso.pressure_key, loading_key=iso.loading_key, **d)
