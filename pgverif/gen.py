"""Seeded workload ingredients shared by the checks (DESIGN.md section 2)."""

import math
import random

from pgverif.ref import units as RU

# everyday cases + deliberately p0 far from 1 bar (hides bar/relative mix-ups otherwise)
FIXED_CONTEXTS = [
    ("nitrogen", 77.355),
    ("nitrogen", 90.0),
    ("argon", 87.3),
    ("carbon dioxide", 250.0),
    ("water", 298.15),
    ("nitrogen", 70.0),
    ("methane", 150.0),
    ("n-butane", 273.15),
]


def rng(seed, *salt):
    return random.Random("%s/%s" % (seed, "/".join(str(s) for s in salt)))


_BACKEND = None


def backend_adsorbates():
    """[(name, backend_name)] of shipped adsorbates that have a CoolProp backend."""
    global _BACKEND
    if _BACKEND is None:
        import pygaps
        seen, out = set(), []
        for a in pygaps.ADSORBATE_LIST:
            b = a.properties.get("backend_name")
            if b and a.name not in seen:
                seen.add(a.name)
                out.append((a.name, b))
        _BACKEND = out
    return _BACKEND


def backend_of(name):
    import pygaps
    return pygaps.Adsorbate.find(name).properties["backend_name"]


def subcritical_T(backend_name, r, margin=0.02):
    fl = RU.fluid(backend_name)
    lo, hi = fl.t_triple(), fl.t_crit()
    span = hi - lo
    return round(lo + span * (margin + (1 - 2 * margin) * r.random()), 3)


def contexts(tier, seed, n_quick=5):
    """(adsorbate name, temperature K) pairs."""
    r = rng(seed, "ctx")
    out = list(FIXED_CONTEXTS[:n_quick])
    ads = backend_adsorbates()
    if tier == "quick":
        for _ in range(2):
            name, b = ads[r.randrange(len(ads))]
            out.append((name, subcritical_T(b, r)))
    else:
        out = list(FIXED_CONTEXTS)
        for name, b in ads:
            for _ in range(4):
                out.append((name, subcritical_T(b, r)))
    return out


def log_uniform(r, lo, hi):
    return math.exp(r.uniform(math.log(lo), math.log(hi)))


def material_props(r):
    """Random positive density (g/cm3) and molar mass (g/mol)."""
    return {"density": round(log_uniform(r, 0.05, 20.0), 6), "molar_mass": round(log_uniform(r, 2.0, 5000.0), 5)}


def increasing(r, n, lo=1e-3, hi=1.0, log=False):
    """n strictly increasing values in (lo, hi)."""
    if log:
        xs = sorted(log_uniform(r, lo, hi) for _ in range(n))
    else:
        xs = sorted(r.uniform(lo, hi) for _ in range(n))
    # enforce strictness with a relative separation
    out = []
    for x in xs:
        if out and x <= out[-1] * (1 + 1e-6) + 1e-12:
            x = out[-1] * (1 + 1e-3) + 1e-9
        out.append(x)
    return out
