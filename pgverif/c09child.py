"""Child process for C09: run one operation with a process-death failpoint (or none)."""

import json
import logging
import sys
import warnings


def main():
    warnings.filterwarnings("ignore")
    job = json.load(sys.stdin)
    import pygaps  # noqa: F401
    logging.getLogger("pygaps").setLevel(logging.CRITICAL)
    from pgverif import sqlfault
    from pgverif.checks import c09
    sqlfault.install()
    sqlfault.PLAN.reset(job.get("kind"), job.get("at"))
    try:
        c09.apply_op(job["spec"], job["db"])
    except Exception as exc:
        print("CHILD-EXC %s: %s" % (type(exc).__name__, str(exc)[:300]))
        sys.exit(3)
    sys.exit(0)


if __name__ == "__main__":
    main()
