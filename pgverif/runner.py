"""CLI: ./check <Cxx> <quick|thorough> | ./check <Cxx> --replay <file>

Exit codes: 0 held on everything observed (known findings printed), 1 violation,
2 inconclusive.  See DESIGN.md section 1.1.
"""

import hashlib
import importlib
import json
import os
import subprocess
import sys
import tempfile
import time

from pgverif import findings
from pgverif.core import Ctx
from pgverif.core import repo_root

HERE = os.path.dirname(os.path.dirname(os.path.abspath(__file__)))
NCPU = min(16, os.cpu_count() or 1)


def load_check(prop):
    return importlib.import_module("pgverif.checks.%s" % prop.lower())


def assert_tree():
    """The code under observation must be /repo's working tree."""
    import pygaps
    root = os.path.realpath(os.path.join(repo_root(), "src"))
    where = os.path.realpath(pygaps.__file__)
    if not where.startswith(root + os.sep):
        print("INCONCLUSIVE reason=pygaps imported from %s, not from %s" % (where, root))
        sys.exit(2)


# ------------------------------------------------------------------------------ worker


def worker_main(argv):
    prop, tier, seed, shard, nshards, out, budget = argv
    seed, shard, nshards, budget = int(seed), int(shard), int(nshards), float(budget)
    import faulthandler
    faulthandler.enable()
    import warnings
    warnings.filterwarnings("ignore")
    import logging
    assert_tree()
    logging.getLogger("pygaps").setLevel(logging.CRITICAL)
    mod = load_check(prop)
    ctx = Ctx(prop, tier, seed)
    ctx.extra["shard"] = 0
    from pgverif.probes import Reach
    reach = None
    t0 = time.time()
    try:
        if hasattr(mod, "setup"):
            mod.setup(ctx)
        if hasattr(mod, "anchors"):
            reach = Reach(mod.anchors()).start()
        skipped = 0
        for i, case in enumerate(mod.gen_cases(tier, seed)):
            if i % nshards != shard:
                continue
            if time.time() - t0 > budget:
                skipped += 1
                continue
            ctx.current_case = case
            try:
                mod.run_case(case, ctx)
            except Exception as exc:  # harness bug or unclassified crash: never a verdict
                import traceback
                ctx.error("run_case crashed: %s" % traceback.format_exc()[-600:], None)
        ctx.current_case = None
        if skipped:
            ctx.count("budget", "cases_skipped_for_time", skipped)
        if hasattr(mod, "teardown"):
            mod.teardown(ctx)
    finally:
        if reach is not None:
            reach.stop()
            ctx.reach = reach.report()
    with open(out, "w") as fh:
        json.dump(ctx.dump(), fh)


# ------------------------------------------------------------------------------ driver


def run_shards(prop, tier, seed, mod):
    nsh = getattr(mod, "NSHARDS", {}).get(tier, NCPU)
    nsh = max(1, min(NCPU, nsh))
    timeout = getattr(mod, "TIMEOUT", {}).get(tier, 240 if tier == "quick" else 3600)
    budget = timeout * 0.8
    tmp = tempfile.mkdtemp(prefix="pgverif-%s-" % prop)
    procs = []
    env = dict(os.environ)
    for s in range(nsh):
        out = os.path.join(tmp, "shard%d.json" % s)
        log = open(os.path.join(tmp, "shard%d.log" % s), "w")
        p = subprocess.Popen([
            sys.executable, "-m", "pgverif.runner", "--worker", prop, tier,
            str(seed),
            str(s),
            str(nsh), out,
            str(budget)
        ],
                             stdout=log,
                             stderr=subprocess.STDOUT,
                             env=env,
                             cwd=HERE)
        procs.append((p, out, log))
    merged = Ctx(prop, tier, seed)
    problems = []
    deadline = time.time() + timeout
    for s, (p, out, log) in enumerate(procs):
        try:
            p.wait(timeout=max(1.0, deadline - time.time()))
        except subprocess.TimeoutExpired:
            p.kill()
            p.wait()
            problems.append("shard %d hit the wall-clock watchdog (%ds)" % (s, timeout))
        log.close()
        if p.returncode != 0 and not os.path.exists(out):
            tail = open(log.name).read()[-800:]
            problems.append("shard %d died rc=%s: %s" % (s, p.returncode, tail))
            continue
        if os.path.exists(out):
            with open(out) as fh:
                merged.merge(json.load(fh))
        elif p.returncode == 0:
            problems.append("shard %d wrote no result" % s)
    import shutil
    shutil.rmtree(tmp, ignore_errors=True)
    merged.extra["shards"] = nsh
    return merged, problems


def write_replay(prop, key, v):
    os.makedirs(os.path.join(HERE, "replays"), exist_ok=True)
    digest = hashlib.md5((prop + key).encode()).hexdigest()[:10]
    path = os.path.join(HERE, "replays", "%s-%s.json" % (prop, digest))
    w = v["witnesses"][0] if v["witnesses"] else {}
    with open(path, "w") as fh:
        json.dump({
            "property": prop,
            "key": key,
            "what": v["what"],
            "count": v["count"],
            "case": w.get("case"),
            "witness": w,
        },
                  fh,
                  indent=1,
                  default=repr)
    return path


def decide(prop, ctx, problems, mod, t0, replay=False):
    """Print verdict lines, write evidence, return exit code."""
    known = findings.known_keys(prop)
    new, reproduced = [], []
    for key, v in sorted(ctx.violations.items()):
        k = findings.match(prop, key, known)
        if k is not None:
            reproduced.append((k, v))
        else:
            new.append((key, v))

    reasons = list(problems)
    reasons += ctx.errors[:5]
    if not replay and hasattr(mod, "finalize"):
        reasons += list(mod.finalize(ctx) or [])
    if not replay and ctx.evaluations == 0:
        reasons.append("no monitored execution at all")

    seen = set()
    for k, v in reproduced:
        if k["key"] in seen:
            continue
        seen.add(k["key"])
        print("KNOWN-FINDING: property=%s %s [%s; reproduced %d time(s)]" % (prop, k["what"], k["key"], v["count"]))
    rc = 0
    for key, v in new[:25]:
        path = write_replay(prop, key, v)
        print("VIOLATION property=%s replay=%s key=%s what=%s (seen %d time(s))" %
              (prop, path, key, v["what"], v["count"]))
        rc = 1
    if rc == 0 and reasons:
        for r in reasons[:8]:
            print("INCONCLUSIVE property=%s reason=%s" % (prop, r.replace("\n", " | ")[:600]))
        rc = 2
    elif reasons:
        for r in reasons[:4]:
            print("NOTE property=%s (also) %s" % (prop, r.replace("\n", " | ")[:300]))

    wall = time.time() - t0
    if not replay:
        from pgverif import evidence
        evidence.write(prop, ctx, mod, wall, new, reproduced, reasons)
    verdict = {0: "HELD", 1: "VIOLATED", 2: "INCONCLUSIVE"}[rc]
    print("%s property=%s tier=%s seed=%d evaluations=%d distinct_nontrivial=%d known_findings=%d wall=%.1fs" %
          (verdict, prop, ctx.tier, ctx.seed, ctx.evaluations, len(ctx.distinct), len(seen), wall))
    return rc


def main(argv=None):
    argv = list(sys.argv[1:] if argv is None else argv)
    if argv and argv[0] == "--worker":
        worker_main(argv[1:])
        return 0
    if len(argv) == 1:
        argv.append(os.environ.get("VERIF_TIER") or "quick")
    if len(argv) < 2:
        print(__doc__)
        return 2
    prop = argv[0].upper()
    t0 = time.time()
    seed = int(os.environ.get("VERIF_SEED", "0") or 0)
    mod = load_check(prop)
    if argv[1] == "--replay":
        path = argv[2]
        with open(path) as fh:
            rp = json.load(fh)
        import warnings
        warnings.filterwarnings("ignore")
        import logging
        assert_tree()
        logging.getLogger("pygaps").setLevel(logging.CRITICAL)
        ctx = Ctx(prop, "quick", seed)
        if hasattr(mod, "setup"):
            mod.setup(ctx)
        ctx.current_case = rp["case"]
        mod.run_case(rp["case"], ctx)
        if hasattr(mod, "teardown"):
            mod.teardown(ctx)
        return decide(prop, ctx, [], mod, t0, replay=True)
    tier = argv[1]  # the tier named on the command line wins over VERIF_TIER
    if tier not in ("quick", "thorough"):
        print("tier must be quick or thorough")
        return 2
    ctx, problems = run_shards(prop, tier, seed, mod)
    return decide(prop, ctx, problems, mod, t0)


if __name__ == "__main__":
    sys.exit(main())
