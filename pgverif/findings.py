"""Known-findings file: read-only at run time, matched by mechanism key.

known_findings.json is a list of entries
  {"status": "known", "property": "C11", "key": "<mechanism key>", "what": "..."}
  {"status": "fixed", "property": "C01", "commit": "<sha>", "key": "...", "what": "..."}
Only status == "known" suppresses anything, and only a violation whose key is *exactly*
the listed key (keys are produced by each check's classifier and name call site + input
class; they never contain random values).  A "fixed" entry suppresses nothing.
"""

import json
import os

HERE = os.path.dirname(os.path.dirname(os.path.abspath(__file__)))
PATH = os.path.join(HERE, "known_findings.json")


def load():
    if not os.path.exists(PATH):
        return []
    with open(PATH) as fh:
        return json.load(fh)


def known_keys(prop):
    return [e for e in load() if e.get("status") == "known" and e.get("property") == prop]


def match(prop, key, known=None):
    known = known_keys(prop) if known is None else known
    for e in known:
        if e["key"] == key:
            return e
    return None
