"""Helpers shared by C08 / C09: template database, independent canonical dump, item factories."""

import copy
import json
import os
import shutil
import sqlite3
import tempfile

_TMP = None
_TEMPLATE = None


def tmpdir():
    global _TMP
    if _TMP is None:
        _TMP = tempfile.mkdtemp(prefix="pgverif-db-")
    return _TMP


def cleanup():
    global _TMP, _TEMPLATE
    if _TMP:
        shutil.rmtree(_TMP, ignore_errors=True)
    _TMP = _TEMPLATE = None


def template():
    """A database created once with the real db_create (schema + shipped adsorbates + isotherm types)."""
    global _TEMPLATE
    if _TEMPLATE is None:
        import pygaps
        from pygaps.utilities.sqlite_db_creator import db_create
        path = os.path.join(tmpdir(), "template.db")
        n_ads = len(pygaps.ADSORBATE_LIST)
        db_create(path)
        # db_create re-uploads the shipped adsorbates and thereby appends duplicates to the in-memory registry:
        # undo that, the harness must not leave marks on the session
        del pygaps.ADSORBATE_LIST[n_ads:]
        _TEMPLATE = path
    return _TEMPLATE


def fresh_db(tag):
    path = os.path.join(tmpdir(), "db-%s.db" % tag)
    shutil.copyfile(template(), path)
    return path


def dump(path):
    """Canonical logical content of a database file, read through an independent sqlite3 connection."""
    con = sqlite3.connect("file:%s?mode=ro" % path, uri=True)
    try:
        out = {"adsorbates": {}, "materials": {}, "isotherms": {}, "types": {}}
        ids = {}
        for rid, name in con.execute("SELECT id, name FROM adsorbates"):
            out["adsorbates"][name] = []
            ids[("a", rid)] = name
        for rid, name in con.execute("SELECT id, name FROM materials"):
            out["materials"][name] = []
            ids[("m", rid)] = name
        orphans = []
        for ads_id, typ, val in con.execute("SELECT ads_id, type, value FROM adsorbate_properties"):
            owner = ids.get(("a", ads_id))
            (out["adsorbates"][owner] if owner is not None else orphans).append([typ, val] if owner is not None else ["adsorbate_properties", ads_id, typ, val])
        for mat_id, typ, val in con.execute("SELECT mat_id, type, value FROM material_properties"):
            owner = ids.get(("m", mat_id))
            (out["materials"][owner] if owner is not None else orphans).append([typ, val] if owner is not None else ["material_properties", mat_id, typ, val])
        for iid, ityp, mat, ads, T in con.execute("SELECT id, iso_type, material, adsorbate, temperature FROM isotherms"):
            out["isotherms"][iid] = {"iso_type": ityp, "material": mat, "adsorbate": ads, "temperature": T, "props": [], "data": []}
        for iso_id, typ, val in con.execute("SELECT iso_id, type, value FROM isotherm_properties"):
            if iso_id in out["isotherms"]:
                out["isotherms"][iso_id]["props"].append([typ, val])
            else:
                orphans.append(["isotherm_properties", iso_id, typ, val])
        for iso_id, typ, dtype, data in con.execute("SELECT iso_id, type, dtype, data FROM isotherm_data"):
            if iso_id in out["isotherms"]:
                out["isotherms"][iso_id]["data"].append([typ, dtype, data if isinstance(data, str) else repr(data)])
            else:
                orphans.append(["isotherm_data", iso_id, typ])
        for table in ("adsorbate_properties_type", "material_properties_type", "isotherm_type"):
            out["types"][table] = sorted(r[0] for r in con.execute("SELECT type FROM %s" % table))
        # every field of the property types the harness creates itself
        out["type_rows"] = {}
        for table in ("adsorbate_properties_type", "material_properties_type"):
            out["type_rows"][table] = {r[0]: [r[1], r[2]] for r in con.execute("SELECT type, unit, description FROM %s WHERE type LIKE 'verif-%%'" % table)}
        try:
            out["types"]["isotherm_properties_type"] = sorted(r[0] for r in con.execute("SELECT type FROM isotherm_properties_type"))
        except sqlite3.Error:
            pass
        for grp in ("adsorbates", "materials"):
            for k in out[grp]:
                out[grp][k] = sorted(out[grp][k], key=lambda tv: (tv[0], repr(tv[1])))
        for k, v in out["isotherms"].items():
            v["props"] = sorted(v["props"], key=lambda tv: (tv[0], repr(tv[1])))
            v["data"] = sorted(v["data"], key=lambda tv: tv[0])
        out["orphans"] = sorted(orphans, key=repr)
        try:
            out["integrity"] = [r[0] for r in con.execute("PRAGMA integrity_check")]
            out["fk_violations"] = [list(map(str, r)) for r in con.execute("PRAGMA foreign_key_check")]
        except sqlite3.Error as exc:
            out["integrity"] = ["error: %r" % exc]
            out["fk_violations"] = []
        return out
    finally:
        con.close()


def dump_digest(d):
    from pgverif.core import _h
    return _h(d)


def diff_dump(a, b, limit=8):
    """Human readable differences between two dumps."""
    out = []
    for grp in ("adsorbates", "materials", "isotherms"):
        ka, kb = set(a[grp]), set(b[grp])
        for k in sorted(ka - kb)[:limit]:
            out.append("%s: '%s' only in first" % (grp, k))
        for k in sorted(kb - ka)[:limit]:
            out.append("%s: '%s' only in second" % (grp, k))
        for k in sorted(ka & kb):
            if a[grp][k] != b[grp][k]:
                out.append("%s: '%s' differs: %s | %s" % (grp, k, json.dumps(a[grp][k], default=repr)[:200], json.dumps(b[grp][k], default=repr)[:200]))
                if len(out) > limit:
                    return out
    for t in a["types"]:
        if a["types"].get(t) != b["types"].get(t):
            out.append("types %s differ: %s" % (t, sorted(set(a["types"].get(t, [])) ^ set(b["types"].get(t, [])))[:6]))
    if a.get("type_rows") != b.get("type_rows"):
        out.append("property type fields differ: %s | %s" % (json.dumps(a.get("type_rows"))[:200], json.dumps(b.get("type_rows"))[:200]))
    if a.get("orphans") != b.get("orphans"):
        out.append("orphan rows differ: %s | %s" % (a.get("orphans")[:3], b.get("orphans")[:3]))
    return out
