"""C04 — read-only queries and analyses are pure and independent of query history.

Fingerprint monitor (state of every isotherm / adsorbate / material argument before and after
each read-only call) + fresh-object twin (the same call issued first on an identical object).
"""

import copy
import hashlib
import math
import os

import numpy
import pandas

from pgverif import gen
from pgverif.core import close

LEVEL = "exploration"
RULE = (
    "case = one history of 2-10 read-only calls on one isotherm object (accessors, loading_at / pressure_at over branch x "
    "interpolation kind x fill, spreading_pressure_at below/inside/at the edge/above the data with and without fill, "
    "exports, characterisation functions, model fitting, IAST); evaluations = calls judged: (a) fingerprint of every argument "
    "identical before and after, (b) outcome (value or exception class) identical to the same call issued first on an "
    "identical fresh object; distinct = (query name, argument class, position in history, previous query)"
)
ASSUMPTIONS = [
    "fingerprint = iso_id, unit labels, data_raw bytes + index + dtypes + columns, metadata, material and adsorbate names / aliases / "
    "property dictionaries, model name / parameters / ranges / rmse; interpolator caches are deliberately not part of it",
    "outcomes compared bitwise, else at relative 1e-12; exceptions by class",
]
NSHARDS = {"quick": 16, "thorough": 16}
TIMEOUT = {"quick": 280, "thorough": 3300}


def anchors():
    import pygaps
    from pygaps.characterisation import enth_sorp_whittaker as w
    from pygaps.modelling.base_model import IsothermBaseModel
    P = pygaps.PointIsotherm
    return [("PointIsotherm.loading_at", P.loading_at), ("PointIsotherm.pressure_at", P.pressure_at), ("PointIsotherm.spreading_pressure_at", P.spreading_pressure_at),
            ("enthalpy_sorption_whittaker", w.enthalpy_sorption_whittaker), ("IsothermBaseModel.fit", IsothermBaseModel.fit), ("Adsorbate.backend", pygaps.Adsorbate.backend.fget)]


def gen_cases(tier, seed):
    r = gen.rng(seed, "c04")
    n = 230 if tier == "quick" else 9000
    nt, ni = len(thermo_alphabet()), len(interp_alphabet())
    for fam, na, sources in (("thermo", nt, ["synthetic", "n77"] if tier == "quick" else ["synthetic", "n77", "synthetic", "n77", "synthetic"]), ("interp", ni, ["synthetic"] if tier == "quick" else ["synthetic", "n77", "co2"])):
        for k, src in enumerate(sources):
            for i in range(na):
                js = list(range(na)) if (fam == "thermo" or tier != "quick") else [j for j in range(na) if (i + j) % 3 == 0 or abs(i - j) < 6]
                yield {"kind": "pairs", "family": fam, "i": i, "js": js, "source": src, "seed": r.randrange(1 << 30), "cold": k % 2 == 1}
    for i in range(n):
        yield {"kind": "history", "seed": r.randrange(1 << 30), "source": ["synthetic", "synthetic", "n77", "model", "co2", "modelpa", "origin", "shortdes", "dubinin"][i % 9], "length": r.randint(2, 10), "heavy": i % 9 == 0}
    for i in range(3 if tier == "quick" else 60):
        yield {"kind": "discarded", "seed": r.randrange(1 << 30)}


def run_case(case, ctx):
    if case["kind"] == "pairs":
        ctx.count("case_kinds", "pairs/" + case["family"])
        return _run_pairs(case, ctx)
    if case["kind"] == "discarded":
        ctx.count("case_kinds", "discarded")
        return _run_discarded(case, ctx)
    ctx.count("case_kinds", case["source"])
    _run_history(case, ctx)


# ------------------------------------------------------------------ systematic two-call histories


def thermo_alphabet():
    """Calls that touch the shared thermodynamic state (or read what it produced)."""
    from pygaps import characterisation as ch
    out = []
    for meth in ("saturation_pressure", "surface_tension", "liquid_density", "liquid_molar_density", "gas_density", "gas_molar_density", "enthalpy_vaporisation", "enthalpy_liquefaction"):
        for dT in (0.0, 4.0):
            out.append(("adsorbate.%s(dT=%s)" % (meth, dT), (lambda iso, m=meth, d=dT: getattr(iso.adsorbate, m)(iso.temperature + d))))
    for meth in ("molar_mass", "p_critical", "t_critical", "p_triple", "t_triple"):
        out.append(("adsorbate.%s()" % meth, (lambda iso, m=meth: getattr(iso.adsorbate, m)())))
    for kw in ({"loading_basis": "volume_gas", "loading_unit": "cm3"}, {"loading_basis": "volume_liquid", "loading_unit": "cm3"}, {"loading_basis": "mass", "loading_unit": "mg"}, {"loading_basis": "fraction"}):
        out.append(("loading(%s)" % kw["loading_basis"], (lambda iso, k=kw: iso.loading(branch="ads", **k))))
    for kw in ({"pressure_mode": "absolute", "pressure_unit": "kPa"}, {"pressure_mode": "relative"}, {"pressure_mode": "relative%"}):
        out.append(("pressure(%s)" % kw["pressure_mode"], (lambda iso, k=kw: iso.pressure(branch="ads", **k))))
    out.append(("loading_at(volume_gas)", lambda iso: iso.loading_at(float(numpy.median(iso.pressure(branch="ads"))), loading_basis="volume_gas", loading_unit="cm3")))
    out.append(("loading_at(volume_liquid)", lambda iso: iso.loading_at(float(numpy.median(iso.pressure(branch="ads"))), loading_basis="volume_liquid", loading_unit="cm3")))
    out.append(("t_plot", lambda iso: ch.t_plot(iso, t_limits=(0.35, 0.65))))
    out.append(("dr_plot", lambda iso: ch.dr_plot(iso, p_limits=(None, 0.1))))
    out.append(("area_BET", lambda iso: ch.area_BET(iso)))
    out.append(("psd_mesoporous", lambda iso: ch.psd_mesoporous(iso, psd_model="pygaps-DH")["pore_distribution"][:5]))
    out.append(("to_aif", lambda iso: iso.to_aif()))
    out.append(("initial_henry_slope(verbose)", lambda iso: ch.initial_henry_slope(iso, max_adjrms=0.01, verbose=True)))
    out.append(("psd_dft(internal)", lambda iso: ch.psd_dft(iso)["pore_distribution"][:5]))
    out.append(("psd_dft(user-kernel-with-unreadable-cell)", lambda iso: ch.psd_dft(iso, kernel=bad_kernel_path())))
    return out


def interp_alphabet():
    out = []
    for which in ("loading_at", "pressure_at", "spreading_pressure_at"):
        for branch in ("ads", "des"):
            for kind in (("linear", "nearest", "cubic") if which != "spreading_pressure_at" else ("linear",)):
                for fill in (None, 4.2, (0.5, 9.0), 0.0, "extrapolate"):
                    def q(iso, which=which, branch=branch, kind=kind, fill=fill):
                        xs = iso.loading(branch=branch) if which == "pressure_at" else iso.pressure(branch=branch)
                        lo, hi = float(numpy.min(xs)), float(numpy.max(xs))
                        pts = [lo * 0.5, lo + 0.37 * (hi - lo), hi * 1.4]
                        res = []
                        for x in pts:
                            if which == "spreading_pressure_at":
                                res.append(_outcome(lambda: iso.spreading_pressure_at(x, branch=branch, interp_fill=fill)))
                            else:
                                res.append(_outcome(lambda: getattr(iso, which)(x, branch=branch, interpolation_type=kind, interp_fill=fill)))
                        return [(k, v if k == "ok" else type(v).__name__) for k, v in res]
                    out.append(("%s(%s,%s,fill=%r)" % (which, branch, kind, fill), q))
    return out


def _run_pairs(case, ctx):
    family = case["family"]
    alpha = thermo_alphabet() if family == "thermo" else interp_alphabet()
    name_a, qa = alpha[case["i"]]
    seed = case["seed"]
    source = case["source"]
    for j in case["js"]:
        name_b, qb = alpha[j]
        obj = make_object(source, seed)
        if case.get("cold"):
            fresh_environment(obj)
        fp = fingerprint(obj)
        _outcome(qa, obj)
        got = _outcome(qb, obj)
        ctx.case(["pair", family, name_a.split("(")[0], name_b.split("(")[0], source])
        ctx.count("queries", "pairs:" + name_b.split("(")[0])
        if fingerprint(obj) != fp:
            ctx.violation("%s/mutates-argument" % name_b.split("(")[0], "a read-only call changed an isotherm / adsorbate / material passed to it", query=name_b, history=[name_a, name_b], source=source)
            continue
        fresh = make_object(source, seed)
        fresh_environment(fresh)
        exp = _outcome(qb, fresh)
        ctx.count("twin_comparisons", "pairs:" + name_b.split("(")[0])
        if got[0] != exp[0] or (got[0] == "exc" and type(got[1]) is not type(exp[1])):
            ctx.violation("%s/outcome-depends-on-history" % name_b.split("(")[0], "the kind of outcome differs from the same call issued first on a fresh object", query=name_b,
                          after_history=[got[0], repr(got[1])[:160]], fresh=[exp[0], repr(exp[1])[:160]], history=[name_a, name_b], source=source)
        elif got[0] == "ok" and not same_value(got[1], exp[1]):
            ctx.violation("%s/value-depends-on-history" % name_b.split("(")[0], "the value differs from the same call issued first on a fresh object", query=name_b, after_history=repr(got[1])[:200],
                          fresh=repr(exp[1])[:200], history=[name_a, name_b], source=source)


# ------------------------------------------------------------------ objects


def _synthetic(seed, variant=0):
    import pygaps
    r = gen.rng(seed, "obj")
    ads, T = [("nitrogen", 77.355), ("nitrogen", 77.355), ("argon", 87.3)][variant % 3]
    p = numpy.concatenate([numpy.exp(numpy.linspace(math.log(1e-6), math.log(0.05), 20)), numpy.linspace(0.06, 0.96, 40)])
    a, b = 2.0 + (seed % 7) * 0.3, 40 + (seed % 11) * 9
    n = a * b * p / ((1 - 0.8 * p) * (1 - 0.8 * p + b * p)) + 1.5 * p / (0.004 + p) + 5 / (1 + numpy.exp(-(p - 0.5) / 0.04))
    pd_ = p[::-3][1:]
    nd = numpy.interp(pd_, p, n) * 1.04
    if seed % 2 == 0:
        # the material is a registered one (as after loading it from a database): isotherms share the registered object
        try:
            pygaps.Material.find("verif-c04-%d" % (seed % 5))
        except Exception:
            pygaps.Material("verif-c04-%d" % (seed % 5), store=True, **({"density": 1.3, "molar_mass": 250.0} if seed % 2 else {"density": 2, "molar_mass": 250}))
    df = pandas.DataFrame({"pressure": numpy.concatenate([p, pd_]), "loading": numpy.concatenate([n, nd])})
    df["enthalpy"] = 8 + 12 * numpy.exp(-df["loading"] / 3.0)
    return pygaps.PointIsotherm(isotherm_data=df, pressure_key="pressure", loading_key="loading", branch=[False] * len(p) + [True] * len(pd_), material=dict(name="verif-c04-%d" % (seed % 5), **({"density": 1.3, "molar_mass": 250.0} if seed % 2 else {"density": 2, "molar_mass": 250})),
                                adsorbate=ads, pressure_mode="relative", pressure_unit=None, user="verif", run=3.0,
                                **dict({k: v for k, v in gen.DEFAULT_UNITS.items() if not k.startswith("pressure")}, **gen.temp_kw(T, celsius=seed % 3 == 0)))


def _origin(seed):
    """A measured series that starts with the origin point (p = 0, n = 0), as most instruments report it."""
    import pygaps
    p = numpy.concatenate([[0.0], numpy.linspace(0.05, 6.0, 18)])
    n = 5.0 * (0.6 + (seed % 4) * 0.2) * p / (1 + (0.6 + (seed % 4) * 0.2) * p)
    return pygaps.PointIsotherm(pressure=list(p), loading=list(n), branch="ads", material="verif-c04-origin", adsorbate="methane", **dict(gen.DEFAULT_UNITS, **gen.temp_kw(150.0, celsius=False)))


def _shortdes(seed):
    """Adsorption branch plus a desorption branch of two points only (a quick reversibility check at the end of a run)."""
    import pygaps
    p = numpy.linspace(0.2, 6.0, 14)
    K = 0.6 + (seed % 4) * 0.2
    n = 5.0 * K * p / (1 + K * p)
    pp, nn = list(p) + [4.0, 2.0], list(n) + [5.0 * K * 4.0 / (1 + K * 4.0) * 1.03, 5.0 * K * 2.0 / (1 + K * 2.0) * 1.05]
    return pygaps.PointIsotherm(pressure=pp, loading=nn, branch=[False] * 14 + [True] * 2, material="verif-c04-sd", adsorbate="methane", **dict(gen.DEFAULT_UNITS, **gen.temp_kw(150.0, celsius=False)))


def _co2(seed):
    """An absolute-pressure isotherm of a subcritical adsorbate (for Whittaker / IAST / Henry)."""
    import pygaps
    p = numpy.exp(numpy.linspace(math.log(1e-3), math.log(8.0), 45))
    K, nm = 0.8 + (seed % 5) * 0.2, 6.0
    n = nm * K * p / (1 + K * p)
    return pygaps.PointIsotherm(pressure=list(p), loading=list(n), branch="ads", material="verif-c04-co2", adsorbate="carbon dioxide", **dict(gen.DEFAULT_UNITS, **gen.temp_kw(250.0, celsius=seed % 3 == 1)))


def _model(seed):
    import pygaps
    from pgverif import models as GM
    name = ["Langmuir", "Toth", "DSLangmuir", "Henry", "Virial"][seed % 5]
    r = gen.rng(seed, "m")
    P = {"Langmuir": {"K": 1.2345678901234, "n_m": 5.0}, "Toth": {"K": 2.0000000123, "n_m": 4.0, "t": 0.8123456789}, "DSLangmuir": {"n_m1": 2.0, "K1": 0.5, "n_m2": 3.0, "K2": 6.000000001234},
         "Henry": {"K": 0.7000000004321}, "Virial": {"K": 1.1000000001234, "A": 0.012, "B": 0.0011, "C": 0.00013}}[name]  # (as many digits as a fit leaves)
    m = GM.make_model(name, P, pressure_range=(0.01, 5.0), loading_range=(0.01, 4.0), rmse=0.01)
    return pygaps.ModelIsotherm(model=m, material="verif-c04-m", adsorbate="nitrogen", temperature=298.0, **gen.DEFAULT_UNITS)


def _dubinin(seed):
    """A Dubinin-Radushkevich / -Astakhov model isotherm: the one model family whose equation contains the temperature."""
    import pygaps
    from pgverif import models as GM
    name = ["DR", "DA"][seed % 2]
    T = [77.355, 87.3, 120.0][seed % 3]
    P = {"DR": {"n_m": 9.5 + (seed % 5) * 0.25, "e": 6500.0 + (seed % 7) * 210.0}, "DA": {"n_m": 7.25, "e": 5200.0 + (seed % 7) * 190.0, "m": 2.4}}[name]
    m = GM.make_model(name, P, pressure_range=(1e-5, 0.9), loading_range=(0.01, 9.0), rmse=0.01, temperature=T)
    units = dict(gen.DEFAULT_UNITS, pressure_mode="relative", pressure_unit=None)
    return pygaps.ModelIsotherm(model=m, material="verif-c04-du", adsorbate="nitrogen" if T < 100 else "methane", temperature=T, **units)


_BAD_KERNEL = []


def bad_kernel_path():
    """A user kernel file (copy of the shipped one) with one unreadable cell: loading it fails part-way."""
    if not _BAD_KERNEL:
        import tempfile
        from pygaps.data import KERNELS
        lines = open(KERNELS["DFT-N2-77K-carbon-slit"], encoding="utf8").read().splitlines()
        row = lines[len(lines) // 2].split(",")
        row[len(row) // 2] = "#DIV/0!"
        lines[len(lines) // 2] = ",".join(row)
        d = tempfile.mkdtemp(prefix="pgverif-c04-")
        path = os.path.join(d, "user-kernel.csv")
        with open(path, "w", encoding="utf8") as f:
            f.write("\n".join(lines) + "\n")
        _BAD_KERNEL.append(path)
        import atexit
        import shutil
        atexit.register(shutil.rmtree, d, True)
    return _BAD_KERNEL[0]


def _model_pa(seed):
    """A Langmuir / Toth ModelIsotherm in Pa (what enthalpy_sorption_whittaker accepts directly)."""
    import pygaps
    from pgverif import models as GM
    name = ["Langmuir", "Toth"][seed % 2]
    P = {"Langmuir": {"K": 2.0123456789e-5, "n_m": 5.0}, "Toth": {"K": 3.0123456789e-5, "n_m": 4.0, "t": 0.8}}[name]
    m = GM.make_model(name, P, pressure_range=(100.0, 8.0e5), loading_range=(0.05, 4.0), rmse=0.01)
    units = dict(gen.DEFAULT_UNITS, pressure_unit="Pa")
    return pygaps.ModelIsotherm(model=m, material="verif-c04-mpa", adsorbate="carbon dioxide", temperature=250.0, **units)


def _n77(seed):
    from pgverif.checks import c15
    return c15._load(c15.N77[seed % 5])


def fresh_environment(*isos):
    """What a first call in a fresh session sees: no thermodynamic state on the adsorbates, no loaded kernels or reference curves.

    (The isotherm constructor always resolves adsorbates through the registry, so two isotherms share one Adsorbate; the harness resets
    its lazily created CoolProp handle instead of building a second instance.)"""
    from pygaps.characterisation import models_thickness as mt, psd_kernel as pk
    for i in isos:
        i.adsorbate._state = None
        i.adsorbate._backend_mode = None
    mt._LOADED.clear()
    pk._LOADED.clear()


def make_object(source, seed):
    return {"synthetic": lambda: _synthetic(seed, seed), "n77": lambda: _n77(seed), "model": lambda: _model(seed), "co2": lambda: _co2(seed), "modelpa": lambda: _model_pa(seed), "origin": lambda: _origin(seed), "shortdes": lambda: _shortdes(seed), "dubinin": lambda: _dubinin(seed)}[source]()


# ------------------------------------------------------------------ fingerprint


def fingerprint(iso):
    import pygaps
    h = hashlib.blake2b(digest_size=12)

    def upd(x):
        h.update(repr(x).encode())

    upd(type(iso).__name__)
    upd(iso.iso_id)
    upd(sorted(iso.units.items()))
    upd(iso._temperature)
    upd(sorted((k, repr(v)) for k, v in iso.properties.items()))
    upd(iso.material.name)
    upd(sorted((k, repr(v)) for k, v in iso.material.properties.items()))
    upd(iso.adsorbate.name)
    upd(sorted(iso.adsorbate.alias))
    upd(sorted((k, repr(v)) for k, v in iso.adsorbate.properties.items()))
    if isinstance(iso, pygaps.PointIsotherm):
        d = iso.data_raw
        upd(list(d.columns))
        upd(list(d.index))
        upd([str(t) for t in d.dtypes])
        for c in d.columns:
            h.update(numpy.ascontiguousarray(d[c].to_numpy()).tobytes() if d[c].dtype.kind in "fiub" else repr(d[c].tolist()).encode())
        upd([iso.pressure_key, iso.loading_key])
    if isinstance(iso, pygaps.ModelIsotherm):
        m = iso.model
        upd([m.name, sorted(m.params.items()), tuple(m.pressure_range), tuple(m.loading_range), m.rmse, iso.branch])
    return h.hexdigest()


def explain(iso):
    """Human readable state (for witnesses)."""
    import pygaps
    out = {"iso_id": iso.iso_id, "units": dict(iso.units), "properties": dict(iso.properties), "material": iso.material.to_dict()}
    if isinstance(iso, pygaps.PointIsotherm):
        out["pressure_head"] = iso.data_raw[iso.pressure_key].head(3).tolist()
        out["columns"] = list(iso.data_raw.columns)
    return out


# ------------------------------------------------------------------ queries


def _q_accessors(r):
    branch = r.choice([None, "ads", "des", "all"])
    kind = r.choice(["pressure", "loading", "data", "other_data", "has_branch"])
    kw = {}
    if kind == "pressure" and r.random() < 0.6:
        kw = r.choice([{"pressure_mode": "absolute", "pressure_unit": "kPa"}, {"pressure_mode": "relative%"}, {"pressure_mode": "relative"}, {"pressure_mode": "absolute", "pressure_unit": "torr"}])
    if kind == "loading" and r.random() < 0.6:
        kw = r.choice([{"loading_basis": "mass", "loading_unit": "g"}, {"loading_basis": "volume_liquid", "loading_unit": "cm3"}, {"loading_basis": "volume_gas", "loading_unit": "cm3"}, {"loading_basis": "volume_gas", "loading_unit": "l"}, {"loading_unit": "mol"}, {"material_basis": "volume", "material_unit": "cm3"}, {"material_basis": "molar", "material_unit": "mmol"}, {"loading_basis": "fraction"}])
    if r.random() < 0.3:
        kw["limits"] = (0.1, 0.8) if kind == "pressure" else (1.0, 6.0)

    def q(iso):
        if kind == "data":
            return iso.data(branch=branch) if hasattr(iso, "data") else None
        if kind == "other_data":
            return iso.other_data("enthalpy", branch=branch if branch != "all" else None)
        if kind == "has_branch":
            return iso.has_branch(branch or "ads")
        return getattr(iso, kind)(branch=branch, **kw)

    return "%s(branch=%s,%s)" % (kind, branch, sorted(kw)), q


def _q_interp(r, which):
    branch = r.choice(["ads", "ads", "des"])
    kind = r.choice(["linear", "linear", "nearest", "zero", "slinear", "quadratic", "cubic"])
    fill = r.choice([None, None, "extrapolate", 4.2, (0.0, 9.0)])
    where = r.choice(["inside", "inside", "above", "below"])
    units = r.choice([{}, {}, {"pressure_mode": "relative%"}, {"loading_basis": "mass", "loading_unit": "mg"}, {"loading_basis": "volume_gas", "loading_unit": "cm3"}, {"loading_basis": "volume_liquid", "loading_unit": "cm3"}])

    def q(iso):
        if which == "loading_at":
            ps = iso.pressure(branch=branch) if hasattr(iso, "data_raw") else numpy.array([0.1, 2.0])
            lo, hi = float(numpy.min(ps)), float(numpy.max(ps))
            x = {"inside": lo + 0.37 * (hi - lo), "above": hi * 1.5 + 1e-3, "below": lo * 0.5}[where]
            if units.get("pressure_mode") == "relative%" and getattr(iso, "pressure_mode", "") == "relative":
                x = x * 100
            elif "pressure_mode" in units:
                return iso.loading_at(lo + 0.37 * (hi - lo), branch=branch, interpolation_type=kind, interp_fill=fill) if hasattr(iso, "data_raw") else iso.loading_at(x)
            if hasattr(iso, "data_raw"):
                return iso.loading_at(x, branch=branch, interpolation_type=kind, interp_fill=fill, **units)
            return iso.loading_at(x)
        ls = iso.loading(branch=branch) if hasattr(iso, "data_raw") else numpy.array([0.1, 2.0])
        lo, hi = float(numpy.min(ls)), float(numpy.max(ls))
        x = {"inside": lo + 0.41 * (hi - lo), "above": hi * 1.5 + 1e-3, "below": lo * 0.5}[where]
        if hasattr(iso, "data_raw"):
            return iso.pressure_at(x, branch=branch, interpolation_type=kind, interp_fill=fill)
        return iso.pressure_at(x)

    return "%s(%s,%s,fill=%s,%s,%s)" % (which, branch, kind, type(fill).__name__ if fill is not None else None, where, sorted(units)), q


def _q_spreading(r):
    where = r.choice(["below", "inside", "edge", "above"])
    fill = r.choice([None, None, 4.0, "extrapolate"])

    def q(iso):
        ps = iso.pressure(branch="ads") if hasattr(iso, "data_raw") else numpy.array([0.1, 2.0])
        lo, hi = float(numpy.min(ps)), float(numpy.max(ps))
        x = {"below": lo * 0.5, "inside": lo + 0.43 * (hi - lo), "edge": hi, "above": hi * 1.3 + 1e-3}[where]
        if hasattr(iso, "data_raw"):
            return iso.spreading_pressure_at(x, interp_fill=fill)
        return iso.spreading_pressure_at(x)

    return "spreading_pressure_at(%s,fill=%s)" % (where, fill), q


def _q_export(r):
    kind = r.choice(["to_json", "to_csv", "to_aif", "to_dict", "str"])

    def q(iso):
        if kind == "str":
            return str(iso)
        return getattr(iso, kind)()

    return kind, q


def _q_character(r, heavy):
    from pygaps import characterisation as ch
    light = ["area_BET", "area_langmuir", "t_plot", "dr_plot", "da_plot", "initial_henry_slope", "initial_henry_virial", "initial_enthalpy_point", "alpha_s"]
    hv = ["psd_mesoporous", "psd_microporous", "psd_dft"]
    name = r.choice(light + (hv if heavy else []))
    model = r.choice(["pygaps-DH", "BJH", "DH"]) if name == "psd_mesoporous" else r.choice(["HK", "RY"]) if name == "psd_microporous" else None
    branch = r.choice(["ads", "ads", "des"])
    vb = {"verbose": True} if (name in light and name != "initial_enthalpy_point" and r.random() < 0.2) else {}

    def q(iso):
        if name == "area_BET":
            return ch.area_BET(iso, branch=branch, **vb)
        if name == "area_langmuir":
            return ch.area_langmuir(iso, p_limits=(0.02, 0.4), **vb)
        if name == "t_plot":
            return ch.t_plot(iso, thickness_model=r_thick, t_limits=(0.35, 0.65), **vb)
        if name == "dr_plot":
            return ch.dr_plot(iso, p_limits=(None, 0.1), **vb)
        if name == "da_plot":
            return ch.da_plot(iso, exp=None, p_limits=(None, 0.1), **vb)
        if name == "initial_henry_slope":
            return ch.initial_henry_slope(iso, max_adjrms=0.01, **vb)
        if name == "initial_henry_virial":
            return ch.initial_henry_virial(iso, **vb)
        if name == "initial_enthalpy_point":
            return ch.initial_enthalpy_point(iso, "enthalpy", branch=branch)
        if name == "alpha_s":
            return ch.alpha_s(iso, reference_isotherm=iso, reference_area="BET", t_limits=(0.3, 1.2), **vb)
        if name == "psd_mesoporous":
            return ch.psd_mesoporous(iso, psd_model=model, branch=branch)
        if name == "psd_microporous":
            return ch.psd_microporous(iso, psd_model=model)
        return ch.psd_dft(iso)

    r_thick = r.choice(["Halsey", "Harkins/Jura", "SiO2 Jaroniec/Kruk/Olivier", "carbon black Kruk/Jaroniec/Gadkaree"])
    return "%s(%s%s)" % (name, model or (r_thick if name == "t_plot" else branch), ",verbose" if vb else ""), q


def _q_whittaker(r):
    from pygaps import characterisation as ch
    model = r.choice(["Langmuir", "Toth"])

    def q(iso):
        return ch.enthalpy_sorption_whittaker(iso, model=model, loading=[0.5, 1.0, 2.0, 3.0])

    return "enthalpy_sorption_whittaker(%s)" % model, q


def _q_model_iso(r):
    from pygaps.modelling import model_iso
    model = r.choice(["Langmuir", "Henry", "Toth", "DSLangmuir", ["Henry", "Langmuir"], "guess"])
    branch = r.choice(["ads", "ads", "des"])

    def q(iso):
        m = model_iso(iso, model=model, branch=branch)
        return {"name": m.model.name, "params": dict(m.model.params), "rmse": m.model.rmse}

    return "model_iso(%s,%s)" % (model, branch), q


def _co2_other(seed):
    """The same material at another temperature, recorded in kPa (isosteric partner)."""
    import pygaps
    p = numpy.exp(numpy.linspace(math.log(1e-3), math.log(8.0), 45))
    K, nm = (0.8 + (seed % 5) * 0.2) * 0.45, 6.0
    n = nm * K * p / (1 + K * p)
    units = dict(gen.DEFAULT_UNITS, pressure_unit="kPa")
    return pygaps.PointIsotherm(pressure=list(p * 100), loading=list(n), branch="ads", material="verif-c04-co2", adsorbate="carbon dioxide", temperature=270.0, **units)


def _q_isosteric(r):
    from pygaps import characterisation as ch
    pts = [round(r.uniform(0.5, 2.5), 3) for _ in range(3)]

    def q(iso, partner):
        return ch.isosteric_enthalpy([iso, partner], loading_points=sorted(pts))

    return "isosteric_enthalpy", q


def _q_iast(r, partner_seed):
    from pygaps.iast import pgiast
    which = r.choice(["iast_point", "iast_point_fraction", "reverse_iast", "iast_binary_svp"])
    pp = [round(r.uniform(0.05, 3.0), 3), round(r.uniform(0.05, 3.0), 3)]

    def q(iso, partner=None):
        partner = partner if partner is not None else _co2(partner_seed + 1)
        if which == "iast_point":
            return pgiast.iast_point([iso, partner], numpy.array(pp), warningoff=True)
        if which == "iast_point_fraction":
            return pgiast.iast_point_fraction([iso, partner], [0.25, 0.75], 2.0, warningoff=True)
        if which == "reverse_iast":
            return pgiast.reverse_iast([iso, partner], [0.5, 0.5], 1.5, warningoff=True)
        return pgiast.iast_binary_svp([iso, partner], [0.5, 0.5], [0.5, 1.0], warningoff=True)

    return which, q


def _q_adsorbate(r):
    meth = r.choice(["saturation_pressure", "surface_tension", "liquid_density", "liquid_molar_density", "gas_density", "gas_molar_density", "enthalpy_vaporisation", "enthalpy_liquefaction", "molar_mass", "p_critical", "t_triple"])
    dT = r.choice([0.0, 0.0, 0.0, 3.5, -2.0, 10.0])
    calc = r.random() < 0.8

    def q(iso):
        a = iso.adsorbate
        if meth in ("molar_mass", "p_critical", "t_triple"):
            return getattr(a, meth)(calc)
        return getattr(a, meth)(iso.temperature + dT, calculate=calc)

    return "adsorbate.%s(dT=%s,calc=%s)" % (meth, dT, calc), q


def make_query(r, source, heavy, seed):
    pool = ["accessors", "accessors", "accessors", "loading_at", "loading_at", "pressure_at", "spreading", "spreading", "export", "adsorbate", "adsorbate"]
    if source in ("synthetic", "n77"):
        pool += ["character", "character", "model_iso"]
    if source == "co2":
        pool += ["whittaker", "whittaker", "model_iso", "iast", "iast", "henry", "isosteric", "isosteric"]
    if source == "model":
        pool = ["loading_at", "pressure_at", "spreading", "export", "iast", "adsorbate"]
    if source == "dubinin":
        pool = ["loading_at", "loading_at", "pressure_at", "spreading", "export", "accessors"]
    if source == "shortdes":
        pool = ["model_iso", "model_iso", "model_iso", "accessors", "loading_at", "export"]
    if source == "origin":
        pool = ["accessors", "loading_at", "pressure_at", "spreading", "spreading", "spreading", "export", "model_iso", "henry", "iast"]
    if source == "modelpa":
        pool = ["whittaker", "whittaker", "loading_at", "pressure_at", "spreading", "export", "adsorbate"]
    if source == "n77":
        pool += ["badkernel"]
    k = r.choice(pool)
    if k == "accessors":
        return _q_accessors(r)
    if k in ("loading_at", "pressure_at"):
        return _q_interp(r, k)
    if k == "spreading":
        return _q_spreading(r)
    if k == "export":
        return _q_export(r)
    if k == "adsorbate":
        return _q_adsorbate(r)
    if k == "character":
        return _q_character(r, heavy)
    if k == "badkernel":
        from pygaps import characterisation as ch
        return "psd_dft(user-kernel-with-unreadable-cell)", (lambda iso: ch.psd_dft(iso, kernel=bad_kernel_path()))
    if k == "isosteric":
        return _q_isosteric(r)
    if k == "whittaker":
        return _q_whittaker(r)
    if k == "model_iso":
        return _q_model_iso(r)
    if k == "henry":
        from pygaps import characterisation as ch
        vb = {"verbose": True} if r.random() < 0.4 else {}
        return "initial_henry_slope(%s)" % ("verbose" if vb else ""), (lambda iso: ch.initial_henry_slope(iso, max_adjrms=0.01, **vb))
    return _q_iast(r, seed)


# ------------------------------------------------------------------ outcome comparison


def _outcome(fn, *a):
    """(value or exception) of a query; floating point *warnings* are silenced, the numpy error mode itself is left alone: it is
    process-global state that a query may not change either."""
    import warnings
    try:
        with warnings.catch_warnings():
            warnings.simplefilter("ignore")
            res = fn(*a)
        return ("ok", res)
    except Exception as exc:
        return ("exc", exc)
    finally:
        try:
            import matplotlib.pyplot as plt
            plt.close("all")
        except Exception:
            pass


_NUMPY_DEFAULT = dict(divide="warn", over="warn", under="ignore", invalid="warn")


def module_state():
    """Module-level state of the library that a read-only call has no business changing: the lists of known / guessable / IAST models
    and the session registries of materials and adsorbates."""
    import pygaps
    import pygaps.modelling as pm
    return {"_MODELS": tuple(pm._MODELS), "_GUESS_MODELS": tuple(pm._GUESS_MODELS), "_IAST_MODELS": tuple(pm._IAST_MODELS),
            "MATERIAL_LIST": tuple(str(m) for m in pygaps.MATERIAL_LIST), "ADSORBATE_LIST": len(pygaps.ADSORBATE_LIST)}


def same_value(a, b):
    if isinstance(a, dict) and isinstance(b, dict):
        return set(a) == set(b) and all(same_value(a[k], b[k]) for k in a)
    if isinstance(a, (list, tuple)) and isinstance(b, (list, tuple)):
        return len(a) == len(b) and all(same_value(x, y) for x, y in zip(a, b))
    if isinstance(a, pandas.DataFrame) and isinstance(b, pandas.DataFrame):
        return list(a.columns) == list(b.columns) and len(a) == len(b) and all(same_value(a[c].to_numpy(), b[c].to_numpy()) for c in a.columns)
    if isinstance(a, pandas.Series) and isinstance(b, pandas.Series):
        return same_value(a.to_numpy(), b.to_numpy())
    if isinstance(a, numpy.ndarray) or isinstance(b, numpy.ndarray):
        try:
            x, y = numpy.asarray(a), numpy.asarray(b)
            if x.shape != y.shape:
                return False
            if x.dtype.kind in "fiub" and y.dtype.kind in "fiub":
                x, y = x.astype(float), y.astype(float)
                return bool(numpy.all((x == y) | (numpy.abs(x - y) <= 1e-12 * numpy.maximum(numpy.abs(x), numpy.abs(y))) | (numpy.isnan(x) & numpy.isnan(y))))
            return x.tolist() == y.tolist()
        except Exception:
            return False
    if isinstance(a, (float, numpy.floating)) and isinstance(b, (float, numpy.floating, int)):
        return (math.isnan(a) and math.isnan(float(b))) or close(a, b, 1e-12)
    if callable(a) and callable(b):
        return True
    try:
        return bool(a == b)
    except Exception:
        return repr(a) == repr(b)


def _run_history(case, ctx):
    r = gen.rng(case["seed"], "h")
    source, seed = case["source"], case["seed"]
    try:
        obj = make_object(source, seed)
    except Exception as exc:
        ctx.error("c04: object construction failed", exc)
        return
    partner = _co2(seed + 1) if source in ("co2", "model", "origin") else None
    other = None
    prev = None
    trail = []
    for step in range(case["length"]):
        name, q = make_query(r, source, case.get("heavy"), seed)
        is_iast = name in ("iast_point", "iast_point_fraction", "reverse_iast", "iast_binary_svp")
        if name == "isosteric_enthalpy":
            if other is None:
                other = _co2_other(seed)
            args = [obj, other]
        else:
            args = [obj] + ([partner] if is_iast else [])
        if r.random() < 0.3:
            # another isotherm of the same kind (another sample, another temperature) is created and looked at in between: what an
            # existing isotherm answers does not depend on which objects were made after it
            try:
                bystander = make_object(source, seed + 14)  # (same model family, another temperature / other parameters)
                _outcome(lambda o: o.loading_at(float(numpy.median(o.pressure(branch="ads") if hasattr(o, "data_raw") else o.pressure()))), bystander)
                trail.append("<another %s object created>" % source)
                ctx.count("bystanders", source)
            except Exception:
                pass
        fps = [fingerprint(x) for x in args]
        state_before = explain(obj)
        err_before = numpy.geterr()
        mod_before = module_state()
        got = _outcome(q, *args)
        try:
            fps_after = [fingerprint(x) for x in args]
        except Exception as exc:
            ctx.violation("%s/argument-unusable-afterwards" % name.split("(")[0], "after a read-only call the identifier / labels / data of an argument can no longer be read", query=name, exc=exc,
                          history=trail[-6:], source=source)
            obj = make_object(source, seed)
            partner = _co2(seed + 1) if source in ("co2", "model", "origin") else None
            other = None
            prev = None
            continue
        mod_after = module_state()
        if mod_after != mod_before:
            ctx.violation("%s/changes-module-level-state" % name.split("(")[0], "a read-only call changed module-level state of the library (model lists / session registries)", query=name,
                          changed={k: [mod_before[k], mod_after[k]] for k in mod_before if mod_before[k] != mod_after[k]}, history=trail[-6:], source=source)
            import pygaps.modelling as _pm
            _pm._GUESS_MODELS[:] = list(mod_before["_GUESS_MODELS"])
            _pm._MODELS[:] = list(mod_before["_MODELS"])
            _pm._IAST_MODELS[:] = list(mod_before["_IAST_MODELS"])
        if numpy.geterr() != err_before:
            ctx.violation("%s/changes-global-numerical-error-mode" % name.split("(")[0], "a read-only call left numpy's floating point error mode changed for the whole process", query=name, before=err_before,
                          after=numpy.geterr(), history=trail[-6:], source=source)
            numpy.seterr(**err_before)
        trail.append(name)
        qname = name.split("(")[0]
        ctx.case([qname, source, min(step, 3), (prev or "").split("(")[0]])
        ctx.count("queries", qname)
        # (a) purity
        if fps != fps_after:
            changed = {}
            after = explain(obj)
            for k in state_before:
                if state_before[k] != after[k]:
                    changed[k] = [state_before[k], after[k]]
            ctx.violation("%s/mutates-argument" % qname, "a read-only call changed an isotherm / adsorbate / material passed to it", query=name, changed=changed, history=trail[-6:], source=source)
            obj = make_object(source, seed)  # continue with intact objects
            partner = _co2(seed + 1) if source in ("co2", "model", "origin") else None
            other = None
            prev = None
            continue
        # (b) history independence: same call, first on a fresh identical object
        if True:  # also at step 0: earlier histories in this process left their caches behind
            fresh = make_object(source, seed)
            fargs = [fresh] + ([_co2(seed + 1)] if is_iast else [_co2_other(seed)] if name == "isosteric_enthalpy" else [])
            fresh_environment(*fargs)
            err_now = numpy.geterr()
            numpy.seterr(**_NUMPY_DEFAULT)
            exp = _outcome(q, *fargs)
            numpy.seterr(**err_now)
            ctx.count("twin_comparisons", qname)
            if got[0] != exp[0] or (got[0] == "exc" and type(got[1]) is not type(exp[1])):
                ctx.violation("%s/outcome-depends-on-history" % qname, "the kind of outcome differs from the same call issued first on a fresh object", query=name, after_history=[got[0], repr(got[1])[:160]],
                              fresh=[exp[0], repr(exp[1])[:160]], history=trail[-6:], source=source)
            elif got[0] == "ok" and not same_value(got[1], exp[1]):
                ctx.violation("%s/value-depends-on-history" % qname, "the value differs from the same call issued first on a fresh object", query=name, after_history=repr(got[1])[:200], fresh=repr(exp[1])[:200],
                              history=trail[-6:], source=source)
        ctx.count("outcomes", "%s/%s" % (qname, got[0] if got[0] == "ok" else type(got[1]).__name__))
        if r.random() < 0.15 and hasattr(obj, "adsorbate"):
            # a request that cannot be answered (another isotherm of the same adsorbate typed in at 5 K, asked for relative
            # pressures) comes in between: the same query on the untouched object gives what it gave a moment ago
            # (besides the query of this step, a read of the pressures in the other pressure mode - it needs the saturation pressure)
            probe = (lambda o: o.pressure(pressure_mode="relative" if o.pressure_mode == "absolute" else "absolute", pressure_unit=None if o.pressure_mode == "absolute" else "bar")) if hasattr(obj, "data_raw") else None
            probe_before = _outcome(probe, obj) if probe else None
            try:
                import pygaps
                cold = pygaps.PointIsotherm(pressure=[0.1, 0.2, 0.3], loading=[1.0, 2.0, 3.0], branch="ads", material="verif-c04-cold", adsorbate=str(obj.adsorbate), temperature=5.0, **gen.DEFAULT_UNITS)
                _outcome(lambda o: o.pressure(pressure_mode="relative"), cold)
                _outcome(lambda o: o.loading(loading_basis="volume_liquid", loading_unit="cm3"), cold)
            except Exception:
                cold = None
            if cold is not None and probe_before is not None:
                probe_after = _outcome(probe, obj)
                if probe_after[0] != probe_before[0] or (probe_before[0] == "ok" and not same_value(probe_before[1], probe_after[1])):
                    ctx.violation("pressure/outcome-depends-on-history", "after an unanswerable request on another isotherm of the same adsorbate the pressures can no longer be read in the other pressure mode (or read differently)",
                                  before=[probe_before[0], repr(probe_before[1])[:120]], after=[probe_after[0], repr(probe_after[1])[:120]], source=source)
            if cold is not None:
                again = _outcome(q, *args)
                ctx.count("twin_comparisons", "same-query-after-an-unanswerable-request")
                if again[0] != got[0] or (got[0] == "exc" and type(again[1]) is not type(got[1])):
                    ctx.violation("%s/outcome-depends-on-history" % qname, "after an unanswerable request on another isotherm of the same adsorbate the same query ends differently", query=name,
                                  before=[got[0], repr(got[1])[:160]], after=[again[0], repr(again[1])[:160]], source=source)
                elif got[0] == "ok" and not same_value(got[1], again[1]):
                    ctx.violation("%s/value-depends-on-history" % qname, "after an unanswerable request on another isotherm of the same adsorbate the same query gives another value", query=name, before=repr(got[1])[:200],
                                  after=repr(again[1])[:200], source=source)
        prev = name
    if r.random() < 0.03:
        ctx.sample({"source": source, "history": trail})


def _run_discarded(case, ctx):
    """Mixture calculations on isotherms that take the place (the memory) of isotherms discarded earlier: same partial pressures,
    same starting guess, other data. What was computed for objects that no longer exist says nothing about new ones."""
    import gc
    import pygaps
    from pygaps.iast import pgiast
    from pgverif import models as GM
    r = gen.rng(case["seed"], "disc")

    def pair(params):
        out = []
        for (nm, K), ads in zip(params, ("methane", "carbon dioxide")):
            m = GM.make_model("Langmuir", {"n_m": nm, "K": K}, pressure_range=(0.0, 100.0), loading_range=(0.0, 50.0))
            out.append(pygaps.ModelIsotherm(model=m, material="verif-c04-disc", adsorbate=ads, temperature=298.0, **gen.DEFAULT_UNITS))
        return out

    pp = numpy.array([round(r.uniform(0.2, 2.0), 3), round(r.uniform(0.2, 2.0), 3)])
    guess = [0.5, 0.5]
    pB = [(round(r.uniform(2, 6), 3), round(r.uniform(0.2, 3), 3)), (round(r.uniform(2, 6), 3), round(r.uniform(0.2, 3), 3))]
    keep = pair(pB)  # (kept alive: nothing can take its place)
    ref = _outcome(lambda: pgiast.iast_point(keep, pp, adsorbed_mole_fraction_guess=guess, warningoff=True))
    for rnd in range(25):
        pA = [(round(r.uniform(2, 6), 3), round(r.uniform(0.2, 3), 3)), (round(r.uniform(2, 6), 3), round(r.uniform(0.2, 3), 3))]
        tmp = pair(pA)
        _outcome(lambda: pgiast.iast_point(tmp, pp, adsorbed_mole_fraction_guess=guess, warningoff=True))
        del tmp
        gc.collect()
        new = pair(pB)
        got = _outcome(lambda: pgiast.iast_point(new, pp, adsorbed_mole_fraction_guess=guess, warningoff=True))
        ctx.case(["discarded", case["seed"], rnd])
        ctx.count("queries", "iast_point(after-discarded-isotherms)")
        if got[0] != ref[0] or (got[0] == "exc" and type(got[1]) is not type(ref[1])):
            ctx.violation("iast_point/outcome-depends-on-history", "the kind of outcome differs for equal isotherms created after other isotherms were discarded", got=[got[0], repr(got[1])[:160]],
                          reference=[ref[0], repr(ref[1])[:160]], round=rnd)
            return
        if got[0] == "ok" and not same_value(got[1], ref[1]):
            ctx.violation("iast_point/value-depends-on-history", "equal isotherms created after other isotherms were discarded give another mixture result", got=repr(got[1])[:200], reference=repr(ref[1])[:200], round=rnd)
            return
        del new


def finalize(ctx):
    reasons = []
    q = ctx.tables.get("queries", {})
    if sum(q.values()) < 600:
        reasons.append("fewer than 600 queries judged")
    for need in ("loading_at", "pressure_at", "spreading_pressure_at", "pressure", "loading", "to_json", "to_csv", "to_aif", "model_iso", "enthalpy_sorption_whittaker", "iast_point"):
        if q.get(need, 0) < 2:
            reasons.append("query %s issued fewer than 2 times" % need)
    # (the characterisation query of a step is drawn at random from nine kinds: the requirement is on the family, so that it does
    # not depend on the seed which of them happen to be drawn)
    char = {k_: q.get(k_, 0) for k_ in ("area_BET", "area_langmuir", "t_plot", "dr_plot", "da_plot", "initial_henry_slope", "initial_henry_virial", "initial_enthalpy_point", "alpha_s")}
    if sum(char.values()) < 12 or sum(1 for v_ in char.values() if v_) < 4:
        reasons.append("fewer than 12 characterisation queries / fewer than 4 kinds of them: %s" % char)
    if sum(ctx.tables.get("twin_comparisons", {}).values()) < 400:
        reasons.append("fewer than 400 fresh-object twin comparisons")
    for label, (hit, tot) in ctx.reach.items():
        if tot and not hit:
            reasons.append("anchored function %s never entered" % label)
    return reasons
