"""C17 — Horvath-Kawazoe pore widths solve the method's potential equation.

Hook on psd_micro._solve_hk / _solve_hk_cy: the wrapper receives the very potential closure
the method built plus the widths the solver returned, and judges the residual; the public
result is judged against the published slit-pore HK equation written independently.
"""

import math

import numpy

from pgverif import gen
from pgverif import probes
from pgverif.core import close
from pgverif.ref import units as RU

LEVEL = "exploration"
RULE = (
    "case = (model HK/HK-CY/RY/RY-CY, geometry, adsorbent set or user dictionary, adsorbate parameter set, temperature, "
    "pressure/loading series); evaluations = per solved width the residual of the potential equation captured at the solver "
    "hook, plus checks on the public result (published slit HK equation maps pressures back to the chosen widths; widths "
    "non-decreasing; cumulative volume = n M / rho / 1000; distribution = finite-difference derivative; reported widths = "
    "midpoints); distinct = (model, geometry, adsorbent, case digest)"
)
ASSUMPTIONS = [
    "published slit-pore HK equation with Kirkwood-Mueller dispersion constants (written independently in this file)",
    "Saito-Foley cylinder series summed to convergence, compared with the closure handed to the solver; allowed: three times the error of the documented truncation after 25 x radius terms",
    "published Rege-Yang sphere potentials (layer i interacts with the enclosing layer's population; average weighted by the layer populations), compared with the closure handed to the solver at relative 1e-7",
    "published Rege-Yang slit potentials (one layer: two walls; more layers: (2 eps_hgg + (M-2) eps_ggg)/M with eps_ggg = 2 x guest-guest term), compared with the closure handed to the solver at relative 2e-5 "
    "(pyGAPS rounds (2/5)^(1/6) to 7 digits)",
    "a solved width is accepted if the pressure lies inside the band exp(phi(L -+ 5e-5 nm)) (solver xatol 1e-5) or the width "
    "sits at a bound of the search interval",
]
NSHARDS = {"quick": 16, "thorough": 16}
TIMEOUT = {"quick": 280, "thorough": 3300}

_CAPTURE = []
_HANDLES = []
M_E = 9.1093837015e-31
C_L = 299792458.0
N_A = 6.02214076e23
R_GAS = 8.31446261815324


def setup(ctx):
    from pygaps.characterisation import psd_micro

    def after_plain(token, args, kwargs, result):
        pressure, hk_fun, bound, geo = args[:4]
        _CAPTURE.append({"cy": False, "pressure": numpy.array(pressure, dtype=float), "fun": hk_fun, "bound": bound, "geo": geo, "widths": list(result)})
        ctx.hook("_solve_hk")

    def after_cy(token, args, kwargs, result):
        pressure, loading, hk_fun, bound, geo = args[:5]
        _CAPTURE.append({"cy": True, "pressure": numpy.array(pressure, dtype=float), "loading": numpy.array(loading, dtype=float), "fun": hk_fun, "bound": bound, "geo": geo, "widths": list(result)})
        ctx.hook("_solve_hk_cy")

    _HANDLES.append(probes.wrap(psd_micro, "_solve_hk", after=after_plain))
    _HANDLES.append(probes.wrap(psd_micro, "_solve_hk_cy", after=after_cy))


def teardown(ctx):
    for h in _HANDLES:
        h.restore()


def anchors():
    from pygaps.characterisation import psd_micro as pm
    return [("psd_microporous", pm.psd_microporous), ("psd_horvath_kawazoe", pm.psd_horvath_kawazoe), ("psd_horvath_kawazoe_ry", pm.psd_horvath_kawazoe_ry), ("_N_over_RT", pm._N_over_RT),
            ("_dispersion_from_dict", pm._dispersion_from_dict)]


def gen_cases(tier, seed):
    r = gen.rng(seed, "c17")
    n = 48 if tier == "quick" else 2400
    for i in range(n):
        yield {"kind": "forward-slit", "seed": r.randrange(1 << 30), "entry": ["raw", "isotherm"][i % 2]}
    models = ["HK", "HK-CY", "RY", "RY-CY"]
    geos = ["slit", "cylinder", "sphere"]
    for i in range(16 if tier == "quick" else 400):
        yield {"kind": "routing", "seed": r.randrange(1 << 30), "model": models[i % 4], "geometry": ["slit", "sphere", "slit", "cylinder"][(i // 4) % 4] if models[i % 4].startswith("HK") else ["slit", "sphere"][(i // 4) % 2]}
    m = 60 if tier == "quick" else 3000
    for i in range(m):
        model, geo = models[i % 4], geos[(i // 4) % 3]
        if model.startswith("RY") and geo == "cylinder" and tier == "quick" and i > 24:
            continue  # ~1.5 s each
        yield {"kind": "residual", "seed": r.randrange(1 << 30), "model": model, "geometry": geo}


def run_case(case, ctx):
    ctx.count("case_kinds", case["kind"])
    del _CAPTURE[:]
    globals()["_run_" + case["kind"].replace("-", "_")](case, ctx)


def _call(fn, *a, **k):
    try:
        with numpy.errstate(all="ignore"):
            return ("ok", fn(*a, **k))
    except Exception as exc:
        return ("exc", exc)


ADSORBENTS = {
    "Carbon(HK)": {"molecular_diameter": 0.34, "polarizability": 1.02e-3, "magnetic_susceptibility": 1.35e-7, "surface_density": 3.845e19},
    "AlSiOxideIon": {"molecular_diameter": 0.276, "polarizability": 2.5e-3, "magnetic_susceptibility": 1.3e-8, "surface_density": 1.315e19},
    "AlPhOxideIon": {"molecular_diameter": 0.260, "polarizability": 2.5e-3, "magnetic_susceptibility": 1.3e-8, "surface_density": 1.000e19},
}


def _adsorbate_model(r, nitrogen=False):
    if nitrogen:
        return {"molecular_diameter": 0.3, "polarizability": 0.0017403, "magnetic_susceptibility": 3.6e-08, "surface_density": 6.71e18}
    # (weakly diamagnetic probes - H2 6.6e-9, He 3.1e-9 nm3 - belong to the physical range)
    return {"molecular_diameter": round(r.uniform(0.26, 0.45), 4), "polarizability": round(gen.log_uniform(r, 8e-4, 4e-3), 7), "magnetic_susceptibility": round(gen.log_uniform(r, 2.5e-9, 2e-7), 11),
            "surface_density": round(gen.log_uniform(r, 3e18, 1.2e19), -14)}


def _material(r):
    if r.random() < 0.75:
        name = r.choice(sorted(ADSORBENTS))
        return name, dict(ADSORBENTS[name])
    d = {"molecular_diameter": round(r.uniform(0.25, 0.4), 4), "polarizability": round(gen.log_uniform(r, 8e-4, 4e-3), 7), "magnetic_susceptibility": round(gen.log_uniform(r, 4e-9, 2e-7), 11),
         "surface_density": round(gen.log_uniform(r, 8e18, 5e19), -14)}
    # a user's dictionary comes in whatever key order it was written, possibly with a note in it
    items = list(d.items())
    r.shuffle(items)
    arg = dict(items)
    if r.random() < 0.3:
        arg = dict([("comment", 0.0)] + items)
    return arg, d


def hk_slit_lnp(L, ads, mat, T):
    """Published Horvath-Kawazoe slit equation: ln(p/p0) for a slit of internuclear width L (nm)."""
    d0 = (ads["molecular_diameter"] + mat["molecular_diameter"]) / 2
    sigma = (2.0 / 5.0)**(1.0 / 6.0) * d0
    pa, pm = ads["polarizability"] * 1e-27, mat["polarizability"] * 1e-27
    xa, xm = ads["magnetic_susceptibility"] * 1e-27, mat["magnetic_susceptibility"] * 1e-27
    A_a = 1.5 * M_E * C_L**2 * pa * xa
    A_m = 6 * M_E * C_L**2 * pa * pm / (pa / xa + pm / xm)
    pref = (N_A / (R_GAS * T)) * (ads["surface_density"] * A_a + mat["surface_density"] * A_m) / ((sigma * 1e-9)**4 * (L - 2 * d0))
    return pref * (sigma**4 / (3 * (L - d0)**3) - sigma**10 / (9 * (L - d0)**9) - sigma**4 / (3 * d0**3) + sigma**10 / (9 * d0**9))


def ry_slit_lnp(L, ads, mat, T):
    """Rege-Yang (AIChE J. 46 (2000) 734) slit equations, eqs. for eps_1 (M < 2) and (2 eps_2 + (M - 2) eps_3) / M otherwise.

    L is the internuclear wall distance in nm; returns ln(p/p0) = N_A eps / (R T)."""
    dg, dh = ads["molecular_diameter"], mat["molecular_diameter"]
    d0 = (dg + dh) / 2
    c = (2.0 / 5.0)**(1.0 / 6.0)
    sig, sig_g = c * d0, c * dg
    pa, pm = ads["polarizability"] * 1e-27, mat["polarizability"] * 1e-27
    xa, xm = ads["magnetic_susceptibility"] * 1e-27, mat["magnetic_susceptibility"] * 1e-27
    A_gg = 1.5 * M_E * C_L**2 * pa * xa
    A_gh = 6 * M_E * C_L**2 * pa * pm / (pa / xa + pm / xm)
    wall = mat["surface_density"] * A_gh / (2 * (sig * 1e-9)**4)
    guest = ads["surface_density"] * A_gg / (2 * (sig_g * 1e-9)**4)
    lj = lambda s, d: (s / d)**10 - (s / d)**4
    M = (L - dh) / dg
    if M < 2:
        eps = wall * (lj(sig, d0) + lj(sig, L - d0))
    else:
        eps_hgg = wall * lj(sig, d0) + guest * lj(sig_g, dg)
        eps_ggg = 2 * guest * lj(sig_g, dg)
        eps = (2 * eps_hgg + (M - 2) * eps_ggg) / M
    return N_A / (R_GAS * T) * eps


def sf_cylinder_lnp(L, ads, mat, T, nterms=None):
    """Saito-Foley (AIChE J. 37 (1991) 429) cylinder equation with the series summed to convergence (or over nterms terms); L = pore radius (nm)."""
    d0 = (ads["molecular_diameter"] + mat["molecular_diameter"]) / 2
    pa, pm = ads["polarizability"] * 1e-27, mat["polarizability"] * 1e-27
    xa, xm = ads["magnetic_susceptibility"] * 1e-27, mat["magnetic_susceptibility"] * 1e-27
    A_a = 1.5 * M_E * C_L**2 * pa * xa
    A_m = 6 * M_E * C_L**2 * pa * pm / (pa / xa + pm / xm)
    x = d0 / L
    p10, p4 = 21.0 / 32.0 * x**10, x**4
    alpha = beta = 1.0
    total = p10 - p4
    for k in range(1, nterms if nterms is not None else 200000):
        alpha *= ((-4.5 - k) / k)**2
        beta *= ((-1.5 - k) / k)**2
        term = (1 - x)**(2 * k) / (k + 1) * (alpha * p10 - beta * p4)
        total += term
        if nterms is None and abs(term) < 1e-17 * abs(total):
            break
    return 0.75 * math.pi * N_A / (R_GAS * T) * (ads["surface_density"] * A_a + mat["surface_density"] * A_m) / (d0 * 1e-9)**4 * total


def _check_hk_cylinder_potential(ctx, ads, mat, T, r):
    """The potential closure handed to the solver against the converged Saito-Foley series.

    pyGAPS truncates the series after 25 x radius terms ("ensures that layer convergence is achieved"). The error of exactly
    that documented truncation (computed here, 1e-6 ... 4e-3 of ln p depending on d0 / radius) is allowed three times over; a coarser
    truncation, or any other deviation, is not."""
    fun = _CAPTURE[-1]["fun"]
    d0 = (ads["molecular_diameter"] + mat["molecular_diameter"]) / 2
    for L in [r.uniform(d0 * 1.03, 0.8) for _ in range(4)] + [r.uniform(0.8, 2.0) for _ in range(8)]:
        got, exp = float(fun(L)), sf_cylinder_lnp(L, ads, mat, T)
        allowed = max(1e-6, 3 * abs(sf_cylinder_lnp(L, ads, mat, T, nterms=max(1, int(L * 25))) / exp - 1))
        ctx.count("hk_cylinder_potential", "radius<0.8nm" if L < 0.8 else "radius>=0.8nm")
        ctx.case(["hk-cylinder-potential", round(L, 1)])
        if not close(got, exp, allowed, 1e-12):
            ctx.violation("HK/cylinder/potential-vs-converged-series", "the potential handed to the solver is not the Saito-Foley series summed to convergence (within three times the error of the documented truncation)", L=L, allowed=allowed, got=got, expected=exp,
                          ads=ads, mat=mat, T=T)
            return


def ry_sphere_lnp(L, ads, mat, T):
    """Rege-Yang spherical cavity of radius L (nm): layer potentials eps_1 (wall) and eps_i (enclosing adsorbate layer i-1),
    averaged with the layer populations N_i = 4 pi (L - d0 - (i-1) d_g)^2 n_g; M = int(((2L - d_h)/d_g - 1)/2) + 1 layers."""
    dg, dh = ads["molecular_diameter"], mat["molecular_diameter"]
    d0 = (dg + dh) / 2
    pa, pm = ads["polarizability"] * 1e-27, mat["polarizability"] * 1e-27
    xa, xm = ads["magnetic_susceptibility"] * 1e-27, mat["magnetic_susceptibility"] * 1e-27
    A_gg = 1.5 * M_E * C_L**2 * pa * xa
    A_gh = 6 * M_E * C_L**2 * pa * pm / (pa / xa + pm / xm)

    def eps(n_interacting, A, d, a):
        b = 1 - a
        return 2 * n_interacting * A / (4 * (d * 1e-9)**6) * (a**12 / (10 * b) * ((1 - b)**-10 - (1 + b)**-10) - a**6 / (4 * b) * ((1 - b)**-4 - (1 + b)**-4))

    M = int(((2 * L - dh) / dg - 1) / 2) + 1
    N = [4 * math.pi * ((L - d0 - (i - 1) * dg) * 1e-9)**2 * ads["surface_density"] for i in range(1, M + 1)]
    E = [eps(4 * math.pi * (L * 1e-9)**2 * mat["surface_density"], A_gh, d0, d0 / L)]
    for i in range(2, M + 1):
        E.append(eps(N[i - 2], A_gg, dg, dg / (L - d0 - (i - 2) * dg)))
    return N_A / (R_GAS * T) * sum(n * e for n, e in zip(N, E)) / sum(N)


def _check_ry_sphere_potential(ctx, ads, mat, T, r):
    fun = _CAPTURE[-1]["fun"]
    dg, dh = ads["molecular_diameter"], mat["molecular_diameter"]
    d0 = (dg + dh) / 2
    # radii holding one, two and three or more concentric layers
    edges = [(dh + 3 * dg) / 2, (dh + 5 * dg) / 2]
    Ls = [r.uniform(d0 * 1.05, edges[0] - 1e-6) for _ in range(3)] + [r.uniform(edges[0] + 1e-6, edges[1] - 1e-6) for _ in range(4)] + [r.uniform(edges[1] + 1e-6, edges[1] + 1.0) for _ in range(4)]
    for L in Ls:
        got, exp = float(fun(L)), ry_sphere_lnp(L, ads, mat, T)
        layers = int(((2 * L - dh) / dg - 1) / 2) + 1
        ctx.count("ry_sphere_potential", "%d layer(s)" % min(layers, 3))
        ctx.case(["ry-sphere-potential", min(layers, 3), round(L, 1)])
        if not (math.isfinite(got) and math.isfinite(exp)):
            continue
        if not close(got, exp, 1e-7, 1e-12):
            ctx.violation("RY/sphere/potential-vs-published-equation", "the potential handed to the solver is not the published Rege-Yang potential of a spherical cavity", L=L, layers=layers, got=got, expected=exp,
                          ads=ads, mat=mat, T=T)
            return


def ry_cylinder_lnp(L, ads, mat, T, nterms=None):
    """Rege-Yang (AIChE J. 46 (2000) 734) cylindrical pore of radius L (nm): concentric adsorbate layers i = 1..M,
    M = int(((2L - d_h)/d_g - 1)/2) + 1; layer 1 interacts with the wall, layer i > 1 with the enclosing adsorbate layer;
    eps = 3/4 pi n A / d^4 [21/32 a^10 sum_k alpha_k b^2k - a^4 sum_k beta_k b^2k], b = 1 - a; averaged with the populations
    N_i = pi / asin(d_g / ring diameter) - a core too narrow for a ring holds a single file of molecules (N = 1).
    Series summed to convergence, or over nterms terms."""
    dg, dh = ads["molecular_diameter"], mat["molecular_diameter"]
    d0 = (dg + dh) / 2
    pa, pm = ads["polarizability"] * 1e-27, mat["polarizability"] * 1e-27
    xa, xm = ads["magnetic_susceptibility"] * 1e-27, mat["magnetic_susceptibility"] * 1e-27
    A_gg = 1.5 * M_E * C_L**2 * pa * xa
    A_gh = 6 * M_E * C_L**2 * pa * pm / (pa / xa + pm / xm)

    def series(a):
        b2 = (1 - a)**2
        alpha = beta = 1.0
        sa = sb = 1.0
        pw = 1.0
        for k in range(1, nterms if nterms is not None else 400000):
            alpha *= ((-4.5 - k) / k)**2
            beta *= ((-1.5 - k) / k)**2
            pw *= b2
            ta, tb = alpha * pw, beta * pw
            sa += ta
            sb += tb
            if nterms is None and ta < 1e-17 * sa and tb < 1e-17 * sb:
                break
        return 21.0 / 32.0 * a**10 * sa - a**4 * sb

    def eps(n, A, d, a):
        return 0.75 * math.pi * n * A / (d * 1e-9)**4 * series(a)

    M = int(((2 * L - dh) / dg - 1) / 2) + 1
    N, E = [], []
    for i in range(1, M + 1):
        ring = 2 * (L - d0 - (i - 1) * dg)
        N.append(math.pi / math.asin(dg / ring) if dg <= ring else 1.0)
        if i == 1:
            E.append(eps(mat["surface_density"], A_gh, d0, d0 / L))
        else:
            E.append(eps(ads["surface_density"], A_gg, dg, dg / (L - d0 - (i - 2) * dg)))
    return N_A / (R_GAS * T) * sum(n * e for n, e in zip(N, E)) / sum(N)


def _check_ry_cylinder_potential(ctx, ads, mat, T, r):
    """The potential closure handed to the solver against the published Rege-Yang cylinder equation, for pores whose innermost
    layer is a ring and for pores whose innermost layer is a single file. The library sums 25 x radius terms of the series: three
    times the error of exactly that documented truncation is allowed (as for the Saito-Foley cylinder)."""
    fun = _CAPTURE[-1]["fun"]
    dg, dh = ads["molecular_diameter"], mat["molecular_diameter"]
    d0 = (dg + dh) / 2
    ratios = [r.uniform(1.08, 1.95)] + [r.uniform(k + 0.05, k + 0.95) for k in (2, 3, 4, 5, 6, 7)] + [r.uniform(3.05, 3.95), r.uniform(5.05, 5.95)]
    for q in ratios:
        L = (q * dg + dh) / 2
        if L <= d0 * 1.02 or L > 2.0:
            continue
        M = int(((2 * L - dh) / dg - 1) / 2) + 1
        core = 2 * (L - d0 - (M - 1) * dg)
        kind = "%s-core" % ("single-file" if dg > core else "ring") if M > 1 else "one-layer"
        got, exp = float(fun(L)), ry_cylinder_lnp(L, ads, mat, T)
        if not (math.isfinite(got) and math.isfinite(exp)) or exp == 0:
            continue
        allowed = max(1e-6, 3 * abs(ry_cylinder_lnp(L, ads, mat, T, nterms=max(1, int(L * 25))) / exp - 1))
        ctx.count("ry_cylinder_potential", "%d layer(s)/%s" % (min(M, 4), kind))
        ctx.case(["ry-cylinder-potential", min(M, 4), kind, round(L, 1)])
        if not close(got, exp, allowed, 1e-12):
            ctx.violation("RY/cylinder/potential-vs-published-equation", "the potential handed to the solver is not the published Rege-Yang potential of a cylindrical pore (within three times the error of the documented truncation)",
                          L=L, layers=M, core=kind, allowed=allowed, got=got, expected=exp, ads=ads, mat=mat, T=T)
            return


def _check_ry_slit_potential(ctx, ads, mat, T, r):
    """The potential closure handed to the solver against the published equations, on both sides of M = 2."""
    fun = _CAPTURE[-1]["fun"]
    dg, dh = ads["molecular_diameter"], mat["molecular_diameter"]
    lo = dg + dh + 1e-3
    edge = dh + 2 * dg
    Ls = [r.uniform(lo, edge - 1e-6) for _ in range(6)] + [r.uniform(edge + 1e-6, edge + 3.0) for _ in range(8)] + [edge + 1e-4, edge - 1e-4]
    for L in Ls:
        got, exp = float(fun(L)), ry_slit_lnp(L, ads, mat, T)
        ctx.count("ry_slit_potential", "single-layer" if (L - dh) / dg < 2 else "multi-layer")
        ctx.case(["ry-slit-potential", (L - dh) / dg < 2, round(L, 1)])
        if not close(got, exp, 2e-5, 1e-12):
            ctx.violation("RY/slit/potential-vs-published-equation", "the potential handed to the solver is not the published Rege-Yang slit potential", L=L, layers=(L - dh) / dg, got=got, expected=exp,
                          ads=ads, mat=mat, T=T)
            return


def _run_forward_slit(case, ctx):
    import pygaps
    from pygaps.characterisation import psd_micro as pm
    r = gen.rng(case["seed"], "fs")
    isotherm_entry = case["entry"] == "isotherm"
    ads = _adsorbate_model(r, nitrogen=isotherm_entry and r.random() < 0.5)
    mat_arg, mat = _material(r)
    T = 77.355 if isotherm_entry else round(r.uniform(70, 300), 2)
    d0 = (ads["molecular_diameter"] + mat["molecular_diameter"]) / 2
    n = r.randint(5, 25)
    # chosen effective widths W = L - d_mat between the geometric minimum and ~3 nm
    Lmin = 2 * d0 + 0.03
    Ls = numpy.array(sorted(r.uniform(Lmin, 3.0 + mat["molecular_diameter"]) for _ in range(n)))
    Ls = Ls + numpy.arange(n) * 1e-3
    lnp = numpy.array([hk_slit_lnp(L, ads, mat, T) for L in Ls])
    p = numpy.exp(lnp)
    ok = (p > 1e-300) & (p < 0.999) & numpy.isfinite(p)
    # keep the strictly increasing part
    keep = [i for i in range(n) if ok[i]]
    keep = [i for j, i in enumerate(keep) if j == 0 or p[i] > p[keep[j - 1]] * (1 + 1e-9)]
    if len(keep) < 4:
        ctx.count("skipped", "too few usable pressures")
        return
    Ls, p = Ls[keep], p[keep]
    loading = numpy.cumsum(numpy.array([r.uniform(0.05, 1.0) for _ in keep]))  # mmol/g, increasing
    M, rho = 28.0134, 0.8064
    from pgverif.core import _h
    dg = _h([ads, mat, T, len(keep)])
    if isotherm_entry:
        iso = pygaps.PointIsotherm(pressure=list(p), loading=list(loading), branch="ads", material="verif-c17", adsorbate="nitrogen", pressure_mode="relative", pressure_unit=None,
                                   **dict({k: v for k, v in gen.DEFAULT_UNITS.items() if not k.startswith("pressure")}, **gen.temp_kw(T)))
        a = pygaps.Adsorbate.find("nitrogen")
        M, rho = a.molar_mass(), a.liquid_density(T)
        res = _call(pm.psd_microporous, iso, psd_model="HK", pore_geometry="slit", material_model=mat_arg, adsorbate_model=dict(ads, liquid_density=rho, adsorbate_molar_mass=M), p_limits=(None, None))
    else:
        res = _call(pm.psd_horvath_kawazoe, p, loading, T, "slit", dict(ads, liquid_density=rho, adsorbate_molar_mass=M), mat, False)
    ctx.case(["forward-slit", case["entry"], dg])
    if res[0] != "ok":
        ctx.violation("psd_horvath_kawazoe/slit/raises", "HK analysis of pressures generated from the published slit equation raised", exc=res[1], ads=ads, mat=mat, T=T)
        return
    if isotherm_entry:
        widths, dist, cum = res[1]["pore_widths"], res[1]["pore_distribution"], res[1]["pore_volume_cumulative"]
    else:
        widths, dist, cum = res[1]
    widths, dist, cum = numpy.asarray(widths, dtype=float), numpy.asarray(dist, dtype=float), numpy.asarray(cum, dtype=float)
    W = Ls - mat["molecular_diameter"]
    m = len(widths) + 1  # the solver may stop early at unrealistic sizes
    ctx.count("forward_slit", case["entry"])
    exp_mid = (W[:m - 1] + W[1:m]) / 2
    if m < 3 and len(W) >= 4 and max(W) < 9:
        ctx.violation("psd_horvath_kawazoe/slit/truncated", "the result was truncated although all widths are below the stopping size", n_returned=len(widths), n_expected=len(W) - 1)
        return
    if not numpy.allclose(widths, exp_mid, rtol=0, atol=2.5e-5):
        bad = int(numpy.argmax(numpy.abs(widths - exp_mid)))
        ctx.violation("psd_horvath_kawazoe/slit/widths-vs-published-equation", "pressures computed from the published slit-pore HK equation are not mapped back to the chosen widths", got=widths[bad], expected=exp_mid[bad],
                      index=bad, ads=ads, mat=mat, T=T, p=p[bad:bad + 2])
        return
    vol = loading[:m] * M / rho / 1000
    if not numpy.allclose(cum, vol[1:], rtol=1e-9):
        ctx.violation("psd_horvath_kawazoe/cumulative-volume", "the cumulative pore volume is not the adsorbed amount expressed as liquid volume", got=cum[:3], expected=vol[1:4])
    _check_capture(ctx, "HK", "slit", (ads["molecular_diameter"] + mat["molecular_diameter"]) / 2)
    if _CAPTURE:
        solved = numpy.asarray(_CAPTURE[-1]["widths"], dtype=float) - mat["molecular_diameter"]
        _check_public(ctx, "HK", "slit", solved, widths, dist, cum, loading[:len(solved)], M, rho)
    if r.random() < 0.05:
        ctx.sample({"kind": "forward-slit", "adsorbate": ads, "adsorbent": mat_arg if isinstance(mat_arg, str) else mat, "T": T, "chosen_widths": W[:4], "pressures": p[:4], "returned_midpoints": widths[:3]})


_WEAK = [False]


def _check_capture(ctx, model, geo, d_eff=None):
    """Residual of the potential equation at every solved width, using the closure the method built."""
    for cap in _CAPTURE:
        fun, bound = cap["fun"], cap["bound"]
        if d_eff is not None:
            # the search starts at the smallest pore that admits a molecule at all: wall-to-wall distance 2 d0 for a slit,
            # radius d0 for a cylinder or a sphere (d0 = mean of the adsorbate and adsorbent diameters)
            expected = 2 * d_eff if geo == "slit" else d_eff
            ctx.count("search_interval", "%s/%s" % (model, geo))
            if abs(float(bound) - expected) > 1e-12:
                ctx.violation("%s/%s/search-interval-does-not-start-at-the-geometric-minimum" % (model, geo), "pores narrower than the lower end of the search interval cannot be reported, although they admit the molecule",
                              lower_end=float(bound), geometric_minimum=expected)
                return
        ws = cap["widths"]
        P = cap["pressure"][:len(ws)]
        if cap["cy"]:
            ld = cap["loading"]
            cov = ld / (ld.max() * 1.01)
            corr = 1 + 1 / cov * numpy.log(1 - cov)
        for i, (L, p) in enumerate(zip(ws, P)):
            c = corr[i] if cap["cy"] else 0.0
            ctx.case(["residual", model, geo, round(float(p), 12), round(float(L), 9)])
            ctx.count("residuals", "%s/%s" % (model, geo))
            at_bound = L <= bound + 2e-5 or L >= 50 - 2e-4
            if L > 10.0 / cap["geo"]:
                # beyond the method's own cut-off for unrealistic pore sizes (the point after which it stops); the
                # property speaks about widths up to ~3 nm
                ctx.count("residual_outcome", "beyond-cut-off-not-judged")
                continue
            d = 5e-5
            try:
                with numpy.errstate(all="ignore"):
                    vals = [math.exp(float(fun(L + s)) - c) for s in (-d, 0.0, d) if L + s > bound]
            except (OverflowError, ValueError, ZeroDivisionError):
                ctx.count("skipped", "potential not evaluable near the solved width")
                continue
            lo, hi = min(vals), max(vals)
            ok = lo * (1 - 1e-4) <= p <= hi * (1 + 1e-4)
            if ok or at_bound:
                ctx.count("residual_outcome", "at-bound" if (at_bound and not ok) else "solves-equation")
                continue
            # no solution may exist: the potential has a finite minimum (and, for the Rege-Yang models, jumps where the
            # number of adsorbate layers changes); for a pressure below exp(min phi) the best attainable width is the
            # minimiser of |phi(L) - ln p|, which is what the method then reports
            def resid(x):
                with numpy.errstate(all="ignore"):
                    return abs(float(fun(x)) - c - math.log(p))
            try:
                r0 = resid(L)
                neigh = [resid(L + s) for s in (-1e-3, -5e-5, 5e-5, 1e-3) if L + s > bound]
                best_local = all(r0 <= rn + 1e-6 * (1 + rn) for rn in neigh)
            except (OverflowError, ValueError, ZeroDivisionError):
                best_local = False
            if best_local:  # (below the potential minimum, or a jump of a piecewise potential straddling ln p)
                ctx.count("residual_outcome", "no-solution/best-attainable-width")
                continue
            # ... and where *no* width in the method's search interval reaches ln p (a weakly interacting probe at a pressure of
            # 1e-7: the potential is nowhere that deep) there is nothing a reported width could solve: not judged, tabulated
            try:
                with numpy.errstate(all="ignore"):
                    grid = numpy.exp(numpy.linspace(math.log(float(bound) * 1.0001), math.log(50.0), 600))
                    deepest = min(float(fun(x)) - c for x in grid)
                if deepest > math.log(p) + 1e-6:
                    ctx.count("residual_outcome", "no-solution/potential-nowhere-deep-enough")
                    continue
            except (OverflowError, ValueError, ZeroDivisionError):
                pass
            # the bounded minimiser of (exp(phi(L)) - p)^2 can also stop at a local minimum: it then does not solve the equation
            if _WEAK[0] and model.startswith("RY"):
                # recorded: with a weakly diamagnetic probe / adsorbent (susceptibility below 1e-8 nm3) the piecewise Rege-Yang
                # potential is shallow and nearly flat between its jumps, and the minimiser stops on such a stretch
                ctx.violation("Rege-Yang/weakly-diamagnetic-probe/bounded-minimiser-stops-off-the-solution", "a reported width does not solve the method's potential equation at its pressure", L=L, p=p,
                              exp_phi=[lo, hi], bound=bound, geo=geo, cy=cap["cy"])
                return
            ctx.violation("%s/%s/width-does-not-solve-potential-equation" % (model, geo), "a reported width does not solve the method's potential equation at its pressure", L=L, p=p, exp_phi=[lo, hi], bound=bound,
                          cy=cap["cy"])
            return


def _check_public(ctx, model, geo, solved, widths, dist, cum, loading, M, rho):
    key = "%s/%s" % (model, geo)
    cap = _CAPTURE[-1] if _CAPTURE else None
    solved = numpy.asarray(solved, dtype=float)
    ctx.case(["public", model, geo, len(solved)])
    if len(widths) != len(solved) - 1 or not numpy.allclose(widths, (solved[:-1] + solved[1:]) / 2, rtol=1e-12, atol=1e-12):
        ctx.violation(key + "/reported-widths-not-midpoints", "reported widths are not the midpoints of consecutive solved widths", got=widths[:3], solved=solved[:4])
        return
    if numpy.any(numpy.diff(solved) < -4e-5):  # (the solver's own resolution is 1e-5 nm per width)
        k = int(numpy.argmin(numpy.diff(solved)))
        vkey = key + "/widths-decrease-with-pressure"
        if cap is not None and cap["cy"]:
            # mechanism: with the Cheng-Yang correction the equation solved is phi(L) = ln p + 1 + ln(1 - theta)/theta;
            # its right-hand side is not monotone in the point index when the coverage rises quickly
            ld = cap["loading"]
            cov = ld / (ld.max() * 1.01)
            rhs = numpy.log(cap["pressure"]) + 1 + numpy.log(1 - cov) / cov
            if k + 1 < len(rhs) and rhs[k + 1] < rhs[k]:
                vkey = "Cheng-Yang-correction/right-hand-side-not-monotone/widths-decrease-with-pressure"
        if vkey.startswith(key) and cap is not None:
            # mechanism: around the minimum of the potential well the equation has two solutions; the bounded minimiser
            # sometimes returns the one on the repulsive side (left of the minimum), which is smaller than the previous width
            raw = numpy.asarray(cap["widths"], dtype=float)
            if k + 1 < len(raw):
                Lk = float(raw[k + 1])
                try:
                    with numpy.errstate(all="ignore"):
                        falling = float(cap["fun"](Lk + 1e-4)) < float(cap["fun"](Lk))
                except Exception:
                    falling = False
                if falling:
                    vkey = "potential-well/solution-on-repulsive-branch/widths-decrease-with-pressure"
        if vkey.startswith(key) and model.startswith("RY"):
            # mechanism: the Rege-Yang potential jumps where the number of adsorbate layers changes, the equation then has
            # several solutions and consecutive points can land on different pieces
            vkey = "Rege-Yang/piecewise-potential/widths-decrease-with-pressure"
        if solved[k + 1] + 0 > 0 and cap is not None and float(numpy.asarray(cap["widths"])[min(k + 1, len(cap["widths"]) - 1)]) > 10.0 / cap["geo"]:
            return
        ctx.violation(vkey, "solved pore widths decrease with pressure", solved=solved[max(0, k - 1):k + 3], index=k)
    vol = loading * M / rho / 1000
    if not numpy.allclose(cum, vol[1:], rtol=1e-9):
        ctx.violation(key + "/cumulative-volume", "the cumulative pore volume is not the adsorbed amount expressed as liquid volume", got=cum[:3], expected=vol[1:4])
    dw = numpy.diff(solved)
    okm = numpy.abs(dw) > 1e-12
    exp = numpy.diff(vol)[okm] / dw[okm]
    if not numpy.allclose(numpy.asarray(dist)[okm], exp, rtol=1e-9, atol=0):
        ctx.violation(key + "/distribution-not-finite-difference", "the distribution is not the finite-difference derivative of the cumulative volume with respect to width", got=numpy.asarray(dist)[okm][:3], expected=exp[:3])


def _run_residual(case, ctx):
    from pygaps.characterisation import psd_micro as pm
    r = gen.rng(case["seed"], "rs")
    model, geo = case["model"], case["geometry"]
    ads = _adsorbate_model(r, nitrogen=r.random() < 0.4)
    mat_arg, mat = _material(r)
    T = round(r.uniform(70, 300), 2)
    n = r.randint(4, 14) if not (model.startswith("RY") and geo == "cylinder") else r.randint(4, 6)
    p = numpy.array(gen.increasing(r, n, 1e-7, 0.3, log=True))
    loading = numpy.cumsum(numpy.array([r.uniform(0.05, 1.0) for _ in range(n)]))
    M, rho = round(r.uniform(16, 60), 3), round(r.uniform(0.4, 1.6), 4)
    adsd = dict(ads, liquid_density=rho, adsorbate_molar_mass=M)
    fn = pm.psd_horvath_kawazoe if model.startswith("HK") else pm.psd_horvath_kawazoe_ry
    res = _call(fn, p, loading, T, geo, adsd, mat, model.endswith("CY"))
    from pgverif.core import _h
    ctx.case(["residual-case", model, geo, _h([ads, mat, T, n])])
    if res[0] != "ok":
        ctx.violation("%s/%s/raises" % (model, geo), "the analysis raised on an increasing loading series", exc=res[1], ads=ads, mat=mat, T=T)
        return
    ctx.count("configs", "%s/%s/%s" % (model, geo, mat_arg if isinstance(mat_arg, str) else "user-dict"))
    widths, dist, cum = (numpy.asarray(x, dtype=float) for x in res[1])
    _WEAK[0] = ads["magnetic_susceptibility"] < 1e-8 or mat["magnetic_susceptibility"] < 1e-8
    try:
        _check_capture(ctx, model, geo, (ads["molecular_diameter"] + mat["molecular_diameter"]) / 2)
    finally:
        _WEAK[0] = False
    if not _CAPTURE:
        ctx.violation("solver-hook/not-reached", "the analysis returned but the solver hook saw nothing", model=model, geo=geo)
        return
    if model.startswith("RY") and geo == "slit":
        _check_ry_slit_potential(ctx, ads, mat, T, r)
    if model.startswith("HK") and geo == "cylinder":
        _check_hk_cylinder_potential(ctx, ads, mat, T, r)
    if model.startswith("RY") and geo == "sphere":
        _check_ry_sphere_potential(ctx, ads, mat, T, r)
    if model.startswith("RY") and geo == "cylinder":
        _check_ry_cylinder_potential(ctx, ads, mat, T, r)
    factor = 1.0 if (geo == "slit" or model.startswith("RY")) else 2.0
    if model.startswith("RY") and geo != "slit":
        factor = 2.0
    solved_raw = numpy.asarray(_CAPTURE[-1]["widths"], dtype=float)
    # effective width as the method defines it: L - d_mat (slit) or 2 L - d_mat (cylinder / sphere)
    cands = [solved_raw * f - mat["molecular_diameter"] for f in (1.0, 2.0)]
    mids = [(c[:-1] + c[1:]) / 2 for c in cands]
    if len(widths) == 0:
        ctx.count("skipped", "single solved width")
        return
    pick = [i for i, mm in enumerate(mids) if len(mm) == len(widths) and numpy.allclose(mm, widths, rtol=1e-9, atol=1e-12)]
    if not pick:
        ctx.violation("%s/%s/reported-widths-not-midpoints" % (model, geo), "reported widths are not the midpoints of consecutive solved widths (as L - d or 2L - d)", got=widths[:3], solved=solved_raw[:4])
        return
    solved = cands[pick[0]]
    expected_factor = 1.0 if geo == "slit" else 2.0
    if [1.0, 2.0][pick[0]] != expected_factor:
        ctx.violation("%s/%s/width-definition" % (model, geo), "effective width is not L - d (slit) / 2L - d (cylinder, sphere)", factor=[1.0, 2.0][pick[0]])
    _check_public(ctx, model, geo, solved, widths, dist, cum, loading[:len(solved)], M, rho)


def _run_routing(case, ctx):
    """The isotherm entry point must solve the equation of the model it was asked for."""
    import pygaps
    from pygaps.characterisation import psd_micro as pm
    r = gen.rng(case["seed"], "rt")
    model, geo = case["model"], case["geometry"]
    ads = _adsorbate_model(r, nitrogen=True)
    mat_arg, mat = _material(r)
    T = 77.355
    lookup = case["seed"] % 3 == 0
    if lookup:
        # the adsorbate's parameters are looked up (no dictionary given): liquid density and molar mass are those of the
        # isotherm's adsorbate at the isotherm's temperature, whatever was analysed before in this process
        T = r.choice([77.355, 90.0, 110.0])
    n = r.randint(5, 10)
    p = numpy.array(gen.increasing(r, n, 1e-6, 0.15, log=True))
    loading = numpy.cumsum(numpy.array([r.uniform(0.05, 1.0) for _ in range(n)]))
    if case["seed"] % 2 == 1 and not lookup:
        # recorded in percent of the saturation pressure: "the corresponding relative pressure" is a hundredth of the stored number
        stored = p * 100.0
        p = stored / 100.0
        iso = pygaps.PointIsotherm(pressure=list(stored), loading=list(loading), branch="ads", material="verif-c17", adsorbate="nitrogen", pressure_mode="relative%", pressure_unit=None,
                                   **dict({k: v for k, v in gen.DEFAULT_UNITS.items() if not k.startswith("pressure")}, **gen.temp_kw(T)))
        ctx.count("routing", "stored-in-relative-percent")
    else:
        iso = pygaps.PointIsotherm(pressure=list(p), loading=list(loading), branch="ads", material="verif-c17", adsorbate="nitrogen", pressure_mode="relative", pressure_unit=None,
                                   **dict({k: v for k, v in gen.DEFAULT_UNITS.items() if not k.startswith("pressure")}, **gen.temp_kw(T)))
    a = pygaps.Adsorbate.find("nitrogen")
    adsd = dict(ads, liquid_density=a.liquid_density(T), adsorbate_molar_mass=a.molar_mass())
    lims, k0 = (None, None), 0
    if case["seed"] % 3 == 1 and not lookup and n >= 7:
        # a lower pressure limit that cuts the first readings off: the analysis is that of the remaining points as they are
        k0 = r.randint(1, 3)
        lims = (float((p[k0 - 1] + p[k0]) / 2), None)
        ctx.count("routing", "lower-pressure-limit-cuts-points")
    res = _call(pm.psd_microporous, iso, psd_model=model, pore_geometry=geo, material_model=mat_arg, adsorbate_model=None if lookup else adsd, p_limits=lims)
    ctx.case(["routing", model, geo, case["seed"]])
    if lookup:
        ctx.count("routing", "adsorbate-looked-up/T=%g" % T)
        if res[0] != "ok":
            ctx.violation("psd_microporous/%s/%s/raises" % (model, geo), "the isotherm entry point raised", exc=res[1])
            return
        fl = RU.fluid("Nitrogen")
        # ... and then the same sample measured at another temperature, analysed in the same session
        T2 = r.choice([x for x in (77.355, 90.0, 110.0) if x != T])
        iso2 = pygaps.PointIsotherm(pressure=list(p), loading=list(loading), branch="ads", material="verif-c17", adsorbate="nitrogen", pressure_mode="relative", pressure_unit=None,
                                    **dict({k: v for k, v in gen.DEFAULT_UNITS.items() if not k.startswith("pressure")}, **gen.temp_kw(T2)))
        res2 = _call(pm.psd_microporous, iso2, psd_model=model, pore_geometry=geo, material_model=mat_arg, adsorbate_model=None, p_limits=(None, None))
        for TT, rr in ((T, res), (T2, res2)):
            if rr[0] != "ok":
                ctx.violation("psd_microporous/%s/%s/raises" % (model, geo), "the isotherm entry point raised", exc=rr[1])
                continue
            cum = numpy.asarray(rr[1]["pore_volume_cumulative"], dtype=float)
            vol = loading * fl.molar_mass() / fl.rho_liq(TT) / 1000
            m_ = len(cum)
            ctx.case(["routing-lookup", model, geo, TT])
            if m_ and not numpy.allclose(cum, vol[1:m_ + 1], rtol=1e-6):
                ctx.violation("psd_microporous/cumulative-volume/looked-up-adsorbate", "the cumulative pore volume is not the adsorbed amount as liquid volume at the isotherm's temperature", T=TT, analysed_before=T if TT == T2 else None,
                              got=cum[:3], expected=vol[1:4], ratio=float(cum[0] / vol[1]))
        return
    if res[0] != "ok":
        ctx.violation("psd_microporous/%s/%s/raises" % (model, geo), "the isotherm entry point raised", exc=res[1])
        return
    ctx.count("routing", model + "/" + geo)
    if not _CAPTURE:
        ctx.violation("solver-hook/not-reached", "the analysis returned but the solver hook saw nothing", model=model, geo=geo)
        return
    if _CAPTURE[-1]["cy"] != model.endswith("CY"):
        ctx.violation("psd_microporous/%s/cheng-yang-term-%s" % (model, "missing" if model.endswith("CY") else "applied"), "the equation solved is not the one of the requested model (Cheng-Yang correction)", model=model, geo=geo)
        return
    fn = pm.psd_horvath_kawazoe if model.startswith("HK") else pm.psd_horvath_kawazoe_ry
    # (the temperature as the isotherm holds it: a Celsius record returns 77.35500000000002 K, and the bounded minimiser
    # of the Cheng-Yang variants is sensitive to the last bits)
    direct = _call(fn, p[k0:], loading[k0:], iso.temperature, geo, adsd, mat, model.endswith("CY"))
    if direct[0] == "ok":
        same = all(numpy.allclose(numpy.asarray(x, dtype=float), numpy.asarray(y, dtype=float), rtol=1e-9, atol=1e-12) for x, y in zip(
            (res[1]["pore_widths"], res[1]["pore_distribution"], res[1]["pore_volume_cumulative"]), direct[1]))
        if not same:
            ctx.violation("psd_microporous/%s/differs-from-low-level" % model, "the isotherm entry point and the low-level function of the requested model disagree", model=model, geo=geo)
    _check_capture(ctx, model, geo, (ads["molecular_diameter"] + mat["molecular_diameter"]) / 2)


def finalize(ctx):
    reasons = []
    if ctx.hooks.get("_solve_hk", 0) < 20 or ctx.hooks.get("_solve_hk_cy", 0) < 10:
        reasons.append("solver hooks rarely reached (%s)" % ctx.hooks)
    res = ctx.tables.get("residuals", {})
    for m in ("HK", "HK-CY", "RY", "RY-CY"):
        for g in ("slit", "cylinder", "sphere"):
            if res.get("%s/%s" % (m, g), 0) < 4:
                reasons.append("fewer than 4 residuals judged for %s/%s" % (m, g))
    ry = ctx.tables.get("ry_slit_potential", {})
    if ry.get("single-layer", 0) < 10 or ry.get("multi-layer", 0) < 10:
        reasons.append("Rege-Yang slit potential compared at fewer than 10 widths per regime (%s)" % ry)
    if ctx.tables.get("ry_sphere_potential", {}).get("3 layer(s)", 0) < 8:
        reasons.append("Rege-Yang sphere potential compared at fewer than 8 radii with three or more layers")
    if ctx.tables.get("hk_cylinder_potential", {}).get("radius>=0.8nm", 0) < 10:
        reasons.append("Saito-Foley cylinder potential compared at fewer than 10 radii above 0.8 nm")
    if sum(ctx.tables.get("forward_slit", {}).values()) < 20:
        reasons.append("fewer than 20 forward slit problems")
    for label, (hit, tot) in ctx.reach.items():
        if tot and not hit:
            reasons.append("anchored function %s never entered" % label)
    return reasons
