"""C06 — JSON export and import are exact inverses (round-trip postcondition monitor)."""

import copy
import json
import math
import os
import shutil
import tempfile

import numpy

from pgverif import gen
from pgverif import models as GM
from pgverif.core import close

LEVEL = "exploration"
RULE = (
    "one case = one really built isotherm (metadata-only / point / model) exported with isotherm_to_json and re-imported; "
    "evaluations = clause comparisons (==/id, typed deep equality of to_dict, data columns + branch marks, model dict and "
    "predictions on a grid, re-export identity, file vs string target); distinct = digest of the isotherm spec; all are "
    "non-trivial (every case reaches the oracle)"
)
ASSUMPTIONS = [
    "metadata values are JSON-representable (str, int, float, bool, None, lists, dicts with str keys) under non-reserved keys",
    "float equality of data at 1e-12 relative (JSON repr round-trips doubles exactly; this only admits -0.0 == 0.0)",
]
NSHARDS = {"quick": 8, "thorough": 16}
TIMEOUT = {"quick": 240, "thorough": 2400}

_TMP = None


def setup(ctx):
    global _TMP
    _TMP = tempfile.mkdtemp(prefix="pgverif-c06-")


def teardown(ctx):
    if _TMP:
        shutil.rmtree(_TMP, ignore_errors=True)


def anchors():
    from pygaps.core.baseisotherm import BaseIsotherm
    from pygaps.parsing import json as pj
    return [("isotherm_to_json", pj.isotherm_to_json), ("isotherm_from_json", pj.isotherm_from_json), ("BaseIsotherm.to_dict", BaseIsotherm.to_dict)]


def gen_cases(tier, seed):
    r = gen.rng(seed, "c06")
    n = 150 if tier == "quick" else 8000
    for i in range(n):
        yield {"kind": "point", "seed": r.randrange(1 << 30), "branches": ["guess", "ads", "des", "user", "two"][i % 5], "textcol": i % 7 == 0}
    for i in range(96 if tier == "quick" else 4000):
        yield {"kind": "model", "seed": r.randrange(1 << 30), "model": GM.MODEL_NAMES[i % len(GM.MODEL_NAMES)], "fitted": (i // len(GM.MODEL_NAMES)) % 2 == 1,
               "tunit": [None, "°C", None, "K"][(i // len(GM.MODEL_NAMES)) % 4]}
    for i in range(40 if tier == "quick" else 2000):
        yield {"kind": "base", "seed": r.randrange(1 << 30)}


def run_case(case, ctx):
    ctx.count("case_kinds", case["kind"])
    globals()["_run_" + case["kind"]](case, ctx)


def _typed_equal(a, b, path=""):
    """Deep equality that also compares types (bool/int/float/str/None/list/dict). Returns list of differences."""
    out = []
    if isinstance(a, (numpy.floating, )):
        a = float(a)
    if isinstance(b, (numpy.floating, )):
        b = float(b)
    if isinstance(a, (numpy.integer, )):
        a = int(a)
    if isinstance(b, (numpy.integer, )):
        b = int(b)
    if type(a) is not type(b):
        if isinstance(a, (list, tuple)) and isinstance(b, (list, tuple)):
            pass
        else:
            return ["%s: type %s != %s (%r vs %r)" % (path, type(a).__name__, type(b).__name__, a, b)]
    if isinstance(a, dict):
        if set(a) != set(b):
            out.append("%s: keys differ %r" % (path, sorted(set(a) ^ set(b), key=str)))
        for k in set(a) & set(b):
            out += _typed_equal(a[k], b[k], path + "/" + str(k))
        return out
    if isinstance(a, (list, tuple)):
        if len(a) != len(b):
            return ["%s: length %d != %d" % (path, len(a), len(b))]
        for i, (x, y) in enumerate(zip(a, b)):
            out += _typed_equal(x, y, path + "[%d]" % i)
        return out
    if isinstance(a, float):
        if not (a == b or (math.isnan(a) and math.isnan(b))):
            out.append("%s: %r != %r" % (path, a, b))
        return out
    if a != b:
        out.append("%s: %r != %r" % (path, a, b))
    return out


_REG = [0]


_EDIT = [0]


def _roundtrip(ctx, iso, label, spec, extra_checks=None):
    from pygaps.parsing.json import isotherm_from_json
    from pygaps.parsing.json import isotherm_to_json
    from pgverif.core import _h
    dg = _h(spec)
    ctx.case([label, dg])
    _EDIT[0] += 1
    if _EDIT[0] % 4 == 0:
        # the isotherm was looked at (identifier, repr, ==) and then annotated in place through its public metadata dictionary
        # (and its material's): the export is that of the isotherm as it is now
        try:
            _ = iso.iso_id, repr(iso), iso == iso
            iso.properties["annotated_later"] = 7
            if iso.material.properties and not any(mm is iso.material for mm in __import__("pygaps").MATERIAL_LIST):
                iso.material.properties["annotated_later"] = "x"
            ctx.count("histories", "annotated-in-place-after-the-identifier-was-read")
        except Exception as exc:
            ctx.error("c06: in-place annotation failed", exc)
    try:
        s = isotherm_to_json(iso)
    except Exception as exc:
        ctx.violation("%s/export-raises" % label, "isotherm_to_json raised", exc=exc, spec=spec)
        return None
    try:
        doc = json.loads(s)
    except Exception as exc:
        ctx.violation("%s/export-not-json" % label, "export is not a valid JSON document", exc=exc, spec=spec)
        return None
    # every other isotherm whose material carries properties is imported into a session that already knows a material of that
    # name with other values (registered by hand or loaded from a database): the document's values are the isotherm's
    import pygaps
    registered = None
    _REG[0] += 1
    if iso.material.properties and _REG[0] % 2 == 0 and not any(mm is iso.material for mm in pygaps.MATERIAL_LIST):
        other = {k: (v * 1.5 + 1 if isinstance(v, (int, float)) and not isinstance(v, bool) else "other") for k, v in iso.material.properties.items()}
        registered = pygaps.Material(iso.material.name, store=True, **other)
        ctx.count("import_into_session", "material of that name registered with other property values")
    try:
        back = isotherm_from_json(s)
    except Exception as exc:
        ctx.violation("%s/import-raises/%s" % (label, type(exc).__name__), "isotherm_from_json raised on pyGAPS' own export", exc=exc, spec=spec)
        return None
    finally:
        if registered is not None:
            pygaps.MATERIAL_LIST[:] = [mm for mm in pygaps.MATERIAL_LIST if mm is not registered]
    if type(back) is not type(iso):
        ctx.violation("%s/class-changed" % label, "re-imported isotherm is of another class", got=type(back).__name__, spec=spec)
        return None
    # metadata keys, values and *types*, unit labels, material properties
    diffs = _typed_equal(iso.to_dict(), back.to_dict())
    ctx.case([label, dg, "to_dict"])
    if diffs:
        ctx.violation("%s/to_dict-differs" % label, "metadata / labels / material differ after the round trip", diffs=diffs[:6], spec=spec)
    ctx.case([label, dg, "material"])
    if iso.material.name != back.material.name or _typed_equal(iso.material.properties, back.material.properties):
        ctx.violation("%s/material-differs" % label, "material (with properties) differs", a=iso.material.to_dict(), b=back.material.to_dict())
    if extra_checks:
        extra_checks(back)
    # identifier / equality
    ctx.case([label, dg, "=="])
    try:
        eq = (back == iso) and back.iso_id == iso.iso_id
    except Exception as exc:
        ctx.violation("%s/eq-raises" % label, "== raised", exc=exc)
        eq = True
    if not eq:
        ctx.violation("%s/not-equal" % label, "from_json(to_json(x)) != x", ids=[iso.iso_id, back.iso_id], spec=spec)
    # re-export
    ctx.case([label, dg, "re-export"])
    try:
        s2 = isotherm_to_json(back)
        if s2 != s:
            d1, d2 = json.loads(s), json.loads(s2)
            ctx.violation("%s/re-export-differs" % label, "exporting the re-imported isotherm does not reproduce the document", diffs=_typed_equal(d1, d2)[:6] or ["documents differ only in formatting/order"], spec=spec)
    except Exception as exc:
        ctx.violation("%s/re-export-raises" % label, "re-export raised", exc=exc, spec=spec)
    # file target
    ctx.case([label, dg, "file"])
    path = os.path.join(_TMP, "iso-%s.json" % dg)
    try:
        ret = isotherm_to_json(iso, path)
        with open(path, encoding="utf-8") as fh:
            content = fh.read()
        if ret is not None or json.loads(content) != doc:
            ctx.violation("%s/file-vs-string" % label, "file target writes a different document than the string target", spec=spec)
        fb = isotherm_from_json(path)
        if _typed_equal(fb.to_dict(), back.to_dict()) or fb.iso_id != back.iso_id:
            ctx.violation("%s/file-import-differs" % label, "import from a file differs from import from the string", spec=spec)
    except Exception as exc:
        ctx.violation("%s/file-target-raises" % label, "file target raised", exc=exc, spec=spec)
    finally:
        try:
            os.unlink(path)
        except OSError:
            pass
    return back


def _run_point(case, ctx):
    r = gen.rng(case["seed"], "p")
    units = gen.random_units(r) if r.random() < 0.8 else None
    meta = gen.json_metadata(r)
    mp = gen.material_props(r) if r.random() < 0.4 else None
    if mp and r.random() < 0.5:
        mp["colour"] = "grey"
        mp["batch"] = 7
    mode = case["branches"]
    n = r.choice([1, 2, 3, 5, 17, 60]) if r.random() < 0.5 else r.randint(1, 60)
    spec = gen.point_spec(r, n=n, units=units, two_branches=(mode in ("two", "guess") and n >= 4), extras=r.random() < 0.6, meta=meta, material_props=mp, decimals=r.choice([3, 6, 10]))
    if mode == "ads":
        spec["branch"] = [0] * n
        if case["seed"] % 2 == 0 and n >= 3:
            # user-assigned "all adsorption" on a non-monotone pressure sequence (a guess would split it)
            idx = list(range(n))
            r.shuffle(idx)
            for col in ["pressure", "loading"] + list(spec["extra"]):
                src = spec[col] if col in spec else spec["extra"][col]
                new = [src[i] for i in idx]
                if col in spec:
                    spec[col] = new
                else:
                    spec["extra"][col] = new
    elif mode == "des":
        spec["branch"] = [1] * n
    elif mode == "user":
        spec["branch"] = [r.randint(0, 1) for _ in range(n)]
    if case.get("textcol"):
        spec["extra"]["step"] = [r.choice(["ads", "des", "equil", "x y", "ünï"]) for _ in range(n)]
        if case["seed"] % 2 == 0:
            # labels that happen to read as numbers (zero-padded vial numbers, cycle ids): text stays text
            spec["extra"]["vial"] = [r.choice(["001", "002", "010", "1e3", "3.50", "7"]) for _ in range(n)]
    if case["seed"] % 4 == 1 and not spec["extra"]:
        # whole-number readings delivered as integers (an integer column is a data column like any other: same numbers, same type,
        # same document when exported again)
        spec["pressure"] = [int(round(x * 1000)) + i for i, x in enumerate(spec["pressure"])]
        spec["loading"] = [int(round(x * 100)) + i for i, x in enumerate(spec["loading"])]
        ctx.count("point_data", "integer-typed pressure and loading")
        spec["_ints"] = True
    route = r.choice(["df", "df_offset", "df_cols", "df_branchcol"]) if spec["extra"] else r.choice(["lists", "ndarray", "df", "df_perm"])
    if spec.pop("_ints", False) and route == "ndarray":
        route = "lists"  # (the ndarray route of the generator casts to float)
    try:
        iso = gen.build_point(spec, route, branch="guess" if mode == "guess" else "explicit")
    except Exception as exc:
        ctx.error("c06: construction failed", exc)
        return
    converted = None
    if case["seed"] % 3 == 0:
        # a third of the isotherms were permanently converted before the export (labels set by the conversion, not the constructor)
        step = r.choice(["loading->percent", "loading->fraction", "pressure->relative", "pressure->relative%", "material->volume", "loading->mass"])
        try:
            with numpy.errstate(all="ignore"):
                if step.startswith("loading->"):
                    tgt = step.split("->")[1]
                    iso.convert_loading(basis_to=tgt, unit_to="mg" if tgt == "mass" else None)
                elif step.startswith("pressure->"):
                    iso.convert_pressure(mode_to=step.split("->")[1])
                else:
                    iso.convert_material(basis_to="volume", unit_to="cm3")
            converted = step
            ctx.count("converted_before_export", step)
        except Exception:
            ctx.count("converted_before_export", "refused: " + step)
            try:
                iso = gen.build_point(spec, route, branch="guess" if mode == "guess" else "explicit")
            except Exception as exc:
                ctx.error("c06: construction failed", exc)
                return
    if r.random() < 0.03:
        ctx.sample({"kind": "point", "units": dict(iso.units), "n": n, "meta": spec["meta"], "route": route, "branches": mode, "converted_before_export": converted})
    orig = iso.data_raw.copy(deep=True)

    def data_checks(back):
        ctx.case(["point-data", case["seed"]])
        a, b = orig, back.data_raw
        # every data column and branch mark, by *name* (pressure/loading keys may be renamed to the defaults)
        ren = {iso.pressure_key: back.pressure_key, iso.loading_key: back.loading_key}
        cols_a = [ren.get(c, c) for c in a.columns]
        if sorted(map(str, cols_a)) != sorted(map(str, b.columns)):
            ctx.violation("point/columns-differ", "data columns differ after the round trip", a=cols_a, b=list(b.columns))
            return
        if len(a) != len(b):
            ctx.violation("point/row-count", "number of points differs", a=len(a), b=len(b))
            return
        for c in a.columns:
            x, y = a[c].tolist(), b[ren.get(c, c)].tolist()
            if c == "branch":
                if [int(v) for v in x] != [int(v) for v in y]:
                    ctx.violation("point/branch-marks-differ", "branch marks differ after the round trip", a=x, b=y, mode=mode)
                continue
            if all(isinstance(v, str) for v in x):
                if x != y:
                    ctx.violation("point/text-column-differs", "a text column differs after the round trip", col=c, a=x[:8], b=y[:8])
                continue
            try:
                ok = all(close(float(u), float(v), 1e-12) for u, v in zip(x, y))
            except (TypeError, ValueError):
                ok = False
            if not ok:
                ctx.violation("point/data-column-differs", "a data column differs after the round trip", col=c, a=x[:6], b=y[:6])
            elif a[c].dtype.kind != b[ren.get(c, c)].dtype.kind and converted is None:
                ctx.violation("point/data-column-type-differs", "a data column changes its number type in the round trip (integers <-> floats)", col=c, a=str(a[c].dtype), b=str(b[ren.get(c, c)].dtype), route=route)
        if list(map(str, cols_a)) != list(map(str, b.columns)):
            ctx.count("tabulated_only", "column order differs after round trip")

    _roundtrip(ctx, iso, "point", {"spec": spec, "route": route, "mode": mode, "converted_before_export": converted}, data_checks)


def _run_model(case, ctx):
    import pygaps
    r = gen.rng(case["seed"], "m")
    name = case["model"]
    ads_name, T = r.choice(gen.FIXED_CONTEXTS)
    units = gen.random_units(r, fraction_ok=r.random() < 0.5)
    if name in ("DR", "DA"):
        units["pressure_mode"], units["pressure_unit"] = "relative", None
    if case.get("tunit"):
        units["temperature_unit"] = case["tunit"]
    meta = gen.json_metadata(r)
    mp = gen.material_props(r) if r.random() < 0.4 else None
    Tst = T if units["temperature_unit"] == "K" else round(T - 273.15, 6)
    mat = dict(name="verif-c06m-%d" % case["seed"], **mp) if mp else "verif-c06m-%d" % case["seed"]
    # a model may describe the desorption branch (the constructor default is adsorption)
    brkw = {"branch": "des"} if case["seed"] % 3 == 1 else {}
    if case.get("fitted") and name in GM.WELL_POSED_FIT:
        P = GM.random_params(name, r, typed=False)
        ps = GM.sample_pressures(name, P, r, 15)
        m0 = GM.make_model(name, P, temperature=T)
        ls = [float(numpy.asarray(m0.loading(p)).ravel()[0]) for p in ps]
        if not all(math.isfinite(x) and x > 0 for x in ls) or len(set(ls)) < 5:
            return
        try:
            iso = pygaps.ModelIsotherm(pressure=ps, loading=ls, model=name, material=copy.deepcopy(mat), adsorbate=ads_name, temperature=Tst, **brkw, **units, **copy.deepcopy(meta))
        except Exception:
            ctx.count("skipped", "fit-failed")
            return
        how = "fitted"
    else:
        P = GM.random_params(name, r)
        if case["seed"] % 2 == 0 and name in ("DA", "GAB"):
            # a parameter outside the default fitting bounds (legitimate: fitted with user-supplied bounds, or typed in)
            P = dict(P, **({"m": round(r.uniform(3.2, 5.0), 4)} if name == "DA" else {"K": round(r.uniform(1.05, 1.3), 4)}))
            ctx.count("models", name + "/parameter-outside-default-bounds")
        if name in GM.PRESSURE_EXPLICIT:
            lo, hi = GM.loading_window(name, P)
            rng = dict(loading_range=(hi * 0.05, hi * 0.7), pressure_range=(0.01, 1.5))
        else:
            lo, hi = GM.pressure_window(name, P)
            rng = dict(pressure_range=(hi * 0.01, hi * 0.8), loading_range=(0.05, 2.5))
        # (a fit error of exactly zero - a perfect fit - is a legitimate value, as is a range that starts at zero)
        model = GM.make_model(name, P, rmse=0.0 if case["seed"] % 5 == 0 else round(r.uniform(0, 0.2), 6), temperature=T, **rng)
        model.params.update(P)  # (as a fit leaves them: whatever the constructor made of its arguments)
        if case["seed"] % 5 == 0:
            model.rmse = 0.0
        iso = pygaps.ModelIsotherm(model=model, material=copy.deepcopy(mat), adsorbate=ads_name, temperature=Tst, **brkw, **units, **copy.deepcopy(meta))
        how = "hand-built"
    spec = {"model": name, "params": dict(iso.model.params), "units": dict(iso.units), "meta": meta, "how": how, "branch": iso.branch}
    if brkw:
        if iso.branch != "des":
            ctx.violation("model/constructor-ignores-branch", "a model built for the desorption branch reports another branch", branch=iso.branch)
        ctx.count("models", "desorption-branch/" + how)
    bq = {"branch": iso.branch}

    def model_checks(back):
        ctx.case(["model-dict", case["seed"]])
        a, b = iso.model.to_dict(), back.model.to_dict()
        d = _typed_equal(json.loads(json.dumps(a)), json.loads(json.dumps(b)))
        if d:
            ctx.violation("model/model-dict-differs", "model name / parameters / ranges / rmse differ after the round trip", diffs=d[:6], model=name)
        # ... and the attributes themselves (a dictionary that mislabels a field on the way out mislabels it on both sides)
        for attr in ("pressure_range", "loading_range", "rmse"):
            va, vb = getattr(iso.model, attr), getattr(back.model, attr)
            same = all(close(float(x), float(y), 1e-15) or (math.isnan(float(x)) and math.isnan(float(y))) for x, y in zip(numpy.ravel(va), numpy.ravel(vb))) and numpy.shape(va) == numpy.shape(vb)
            if not same:
                ctx.violation("model/attribute-differs/%s" % attr, "a model attribute differs after the round trip", model=name, a=va, b=vb)
        if getattr(iso, "branch", None) != getattr(back, "branch", None):
            ctx.violation("model/branch-differs", "model branch differs after the round trip", a=iso.branch, b=back.branch)
        # every loading and pressure the model predicts
        ctx.case(["model-predictions", case["seed"]])
        try:
            if name in GM.PRESSURE_EXPLICIT:
                grid = numpy.linspace(iso.model.loading_range[0], iso.model.loading_range[1], 7)
                va = [float(numpy.asarray(iso.pressure_at(x, **bq)).ravel()[0]) for x in grid]
                fn = back.pressure_at
            else:
                grid = numpy.linspace(iso.model.pressure_range[0], iso.model.pressure_range[1], 7)
                va = [float(numpy.asarray(iso.loading_at(x, **bq)).ravel()[0]) for x in grid]
                fn = back.loading_at
        except Exception:
            ctx.count("skipped", "original-model-cannot-predict")
            return
        try:
            vb = [float(numpy.asarray(fn(x, **bq)).ravel()[0]) for x in grid]
        except Exception as exc:
            ctx.violation("model/prediction-raises-after-import/%s" % (name if name in ("DR", "DA") else "other"), "the re-imported model cannot be evaluated", exc=exc, model=name, how=how)
            return
        if not all(close(x, y, 1e-12) or (math.isnan(x) and math.isnan(y)) for x, y in zip(va, vb)):
            ctx.violation("model/predictions-differ", "the re-imported model predicts different values", model=name, a=va, b=vb)

    _roundtrip(ctx, iso, "model", spec, model_checks)
    ctx.count("models", name + "/" + how)


def _run_base(case, ctx):
    r = gen.rng(case["seed"], "b")
    mp = gen.material_props(r) if r.random() < 0.5 else None
    spec = gen.point_spec(r, n=2, units=gen.random_units(r), extras=False, meta=gen.json_metadata(r), material_props=mp)
    iso = gen.build_base(spec)
    if case["seed"] % 3 == 0 and spec["temperature"]:
        # built with the constructor's shorthands (m=, a=, t=), and its temperature unit changed afterwards
        # (t=0 - zero degrees Celsius - is taken for "not given" by the shorthand loop and refused: a constructor quirk outside
        # this property, noted in DESIGN.md; such records use the long names)
        from pygaps.core.baseisotherm import BaseIsotherm
        kw = gen._kw(spec)
        kw["m"], kw["a"], kw["t"] = kw.pop("material"), kw.pop("adsorbate"), kw.pop("temperature")
        try:
            iso = BaseIsotherm(**kw)
            iso.convert_temperature("°C" if iso.temperature_unit == "K" else "K")
            ctx.count("histories", "built-with-shorthands-then-temperature-unit-changed")
        except Exception as exc:
            ctx.violation("base/shorthand-construction-raises", "building an isotherm with the m= / a= / t= shorthands (or converting its temperature) raised", exc=exc)
            return
    _roundtrip(ctx, iso, "base", {"units": dict(iso.units), "meta": spec["meta"], "material": spec["material"]})


def finalize(ctx):
    reasons = []
    k = ctx.tables.get("case_kinds", {})
    for kind in ("point", "model", "base"):
        if k.get(kind, 0) < 10:
            reasons.append("fewer than 10 %s isotherms" % kind)
    if len(ctx.tables.get("models", {})) < 16:
        reasons.append("not all 16 models round-tripped")
    for label, (hit, tot) in ctx.reach.items():
        if tot and not hit:
            reasons.append("anchored function %s never entered" % label)
    return reasons
