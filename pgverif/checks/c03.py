"""C03 — data accessors in requested units agree with permanent conversion.

Postcondition monitor on the accessors of real PointIsotherm / ModelIsotherm objects.  The
oracle for clause (a) is what the property names: a reconstructed copy of the isotherm,
permanently converted to the requested representation and read natively.
"""

import itertools

import numpy
import pandas

from pgverif import gen
from pgverif import models as GM
from pgverif.core import close
from pgverif.ref import units as RU

LEVEL = "exploration"
RULE = (
    "one evaluation = one accessor call on a real isotherm compared with its oracle: (a) native read of a permanently "
    "converted copy, (b) foreign-unit query vs reference-converted native query, (c) numpy selection of the generated "
    "rows, (d) branch marks across delivery routes, (e) interpolation facts; distinct = (accessor, stored repr, requested "
    "repr, branch/limits class); trivial = requested repr equals stored repr"
)
ASSUMPTIONS = [
    "limits and query points are placed strictly between data values (never exactly on a point)",
    "an accessor that raises although the permanent conversion of the copy succeeds is a violation; the converse is only tabulated",
    "permanent conversion itself is judged by C02 against the SI/PropsSI reference",
]
NSHARDS = {"quick": 16, "thorough": 16}
TIMEOUT = {"quick": 240, "thorough": 2400}


def anchors():
    import pygaps
    from pygaps.core.modelisotherm import ModelIsotherm
    from pygaps.utilities import math_utilities
    from pygaps.utilities import pygaps_utilities
    P = pygaps.PointIsotherm
    return [("PointIsotherm.pressure", P.pressure), ("PointIsotherm.loading", P.loading), ("PointIsotherm.other_data", P.other_data), ("PointIsotherm.loading_at", P.loading_at),
            ("PointIsotherm.pressure_at", P.pressure_at), ("PointIsotherm.data", P.data), ("ModelIsotherm.pressure", ModelIsotherm.pressure), ("ModelIsotherm.loading", ModelIsotherm.loading),
            ("split_ads_data", math_utilities.split_ads_data), ("get_iso_loading_and_pressure_ordered", pygaps_utilities.get_iso_loading_and_pressure_ordered)]


def gen_cases(tier, seed):
    r = gen.rng(seed, "c03")
    # (a)/(b)/(c) pressure: all stored x requested pairs
    nctx = 1 if tier == "quick" else 3
    for ci in range(nctx):
        ads, T = gen.FIXED_CONTEXTS[(2 * ci + 1) % len(gen.FIXED_CONTEXTS)]
        for a in RU.PRESSURE_REPR:
            yield {"kind": "pressure_pairs", "stored": list(a), "ads": ads, "T": T, "seed": r.randrange(1 << 30)}
        lpairs = list(itertools.product(RU.LOADING_REPR, RU.MATERIAL_REPR))
        if tier == "quick":
            lpairs = r.sample(lpairs, 60)
        for (l, m) in lpairs:
            yield {"kind": "loading_pairs", "stored_l": list(l), "stored_m": list(m), "ads": ads, "T": T, "seed": r.randrange(1 << 30), "nreq": 12 if tier == "quick" else 60}
    for i in range(60 if tier == "quick" else 3000):
        yield {"kind": "selection", "seed": r.randrange(1 << 30)}
    for i in range(40 if tier == "quick" else 2000):
        yield {"kind": "branch_guess", "seed": r.randrange(1 << 30), "shape": i % 6}
    for i in range(60 if tier == "quick" else 3000):
        yield {"kind": "interp", "seed": r.randrange(1 << 30)}
    for i in range(48 if tier == "quick" else 2400):
        yield {"kind": "model_branch", "seed": r.randrange(1 << 30), "model": GM.MODEL_NAMES[i % len(GM.MODEL_NAMES)]}


def run_case(case, ctx):
    ctx.count("case_kinds", case["kind"])
    globals()["_run_" + case["kind"]](case, ctx)


def _call(fn, *a, **k):
    try:
        return ("ok", fn(*a, **k))
    except Exception as exc:
        return ("exc", exc)


def _arr_close(a, b, rt):
    a = numpy.asarray(a, dtype=float)
    b = numpy.asarray(b, dtype=float)
    return a.shape == b.shape and all(close(x, y, rt, 1e-300) for x, y in zip(a.ravel(), b.ravel()))


def _mk(r, units, ads, T, mp, n=None, two=None, extras=False, lscale=1.0):
    spec = gen.point_spec(r, n=n or r.randint(4, 14), units=units, ads=ads, T=T, extras=extras, meta={}, material_props=mp, two_branches=two)
    if lscale != 1.0:
        spec["loading"] = [x * lscale for x in spec["loading"]]  # (a record in a large unit: numbers of 1e-6 and below)
    return spec, gen.build_point(spec, "df")


_WARM = [0]


def _within_pressure_band(iso, q, value, eps):
    """Is value between the native loadings at q (1 - eps) and q (1 + eps)?"""
    if eps <= 1e-9:
        return False
    pmin, pmax = float(numpy.min(iso.pressure(branch="ads"))), float(numpy.max(iso.pressure(branch="ads")))
    lo, hi = _call(iso.loading_at, max(q * (1 - eps), pmin)), _call(iso.loading_at, min(q * (1 + eps), pmax))
    if lo[0] != "ok" or hi[0] != "ok":
        return False
    a_, b_ = sorted([float(lo[1]), float(hi[1])])
    return a_ - 1e-12 * abs(a_) <= value <= b_ + 1e-12 * abs(b_)


def _converted_copy(iso, pkw=None, lkw=None, mkw=None):
    """The property's oracle: a reconstructed copy permanently converted; returns (copy or None, exc)."""
    cp = gen.copy_point(iso)
    _WARM[0] += 1
    if _WARM[0] % 2:
        # every other oracle copy has been queried before it is converted (its interpolators exist), as a user's would
        try:
            cp.loading_at(float(numpy.median(cp.pressure(branch="ads"))))
            cp.pressure_at(float(numpy.median(cp.loading(branch="ads"))))
        except Exception:
            pass
    try:
        if pkw:
            cp.convert_pressure(mode_to=pkw.get("pressure_mode"), unit_to=pkw.get("pressure_unit"))
        if mkw:
            cp.convert_material(basis_to=mkw.get("material_basis"), unit_to=mkw.get("material_unit"))
        if lkw:
            cp.convert_loading(basis_to=lkw.get("loading_basis"), unit_to=lkw.get("loading_unit"))
    except Exception as exc:
        return None, exc
    return cp, None


def _judge(ctx, key, what, acc, oracle_copy, oracle_exc, native_read, rt, **info):
    """Compare an accessor outcome with the native read of the permanently converted copy."""
    if oracle_copy is None:
        ctx.count("outcome_table", "%s: permanent conversion refused / accessor %s" % (key.split("/")[0], acc[0]))
        ctx.trivial += 1
        return
    exp = _call(native_read, oracle_copy)
    if exp[0] != "ok":
        ctx.count("outcome_table", "%s: native read of converted copy raised" % key.split("/")[0])
        return
    if acc[0] != "ok":
        info.pop("mechanism", None)
        ctx.violation(key + "/raises", what + ": accessor raised although the permanent conversion succeeds", exc=acc[1], **info)
        return False
    if not _arr_close(acc[1], exp[1], rt):
        k = key + "/value"
        mech = info.pop("mechanism", None)
        if mech:
            # mechanism confirmed only if the discrepancy is a pure scale factor (same ratio at every point)
            g = numpy.asarray(acc[1], dtype=float).ravel()
            e = numpy.asarray(exp[1], dtype=float).ravel()
            if g.shape == e.shape and g.size and numpy.all(e != 0):
                ratio = g / e
                if numpy.all(numpy.isfinite(ratio)) and numpy.max(numpy.abs(ratio - ratio[0])) <= 1e-9 * abs(ratio[0]):
                    k = mech
        ctx.violation(k, what + ": accessor differs from the permanently converted copy", got=acc[1], expected=exp[1], **info)
        return False
    return True


# ------------------------------------------------------------------ pressure


def _run_pressure_pairs(case, ctx):
    r = gen.rng(case["seed"], "pp")
    a = tuple(case["stored"])
    units = dict(gen.DEFAULT_UNITS, pressure_mode=a[0], pressure_unit=a[1], temperature_unit="°C" if case["seed"] % 2 else "K")
    mp = gen.material_props(r)
    spec, iso = _mk(r, units, case["ads"], case["T"], mp, two=True, n=10)
    fl = RU.fluid(gen.backend_of(case["ads"]))
    na = spec["branch"].count(0)
    for b in RU.PRESSURE_REPR:
        pkw = {"pressure_mode": b[0], "pressure_unit": b[1]}
        cp, cexc = _converted_copy(iso, pkw=pkw)
        rt = max(RU.rtol_for(a[1], b[1]) * 1e-5, 1e-9)  # same code path on both sides: tight
        for branch in (None, "ads", "des", "all"):
            acc = _call(iso.pressure, branch=branch, **pkw)
            ctx.case(["pressure", a, b, branch], nontrivial=a != b)
            ctx.count("pressure_pairs", "%s->%s" % (a[0], b[0]))
            _judge(ctx, "PointIsotherm.pressure/%s->%s" % (a[0], b[0]), "pressure()", acc, cp, cexc, lambda c: c.pressure(branch=branch), rt, stored=a, requested=b, branch=branch)
        # limits in requested units, strictly between points
        if cp is not None:
            full = cp.pressure(branch="ads")
            if len(full) >= 3:
                lo = (full[0] + full[1]) / 2
                hi = (full[-2] + full[-1]) / 2
                for lim in ((lo, hi), (lo, None), (None, hi), (hi, lo)):
                    acc = _call(iso.pressure, branch="ads", limits=lim, **pkw)
                    ctx.case(["pressure-limits", a, b, [x is None for x in lim]])
                    sel = full[(full >= (-numpy.inf if lim[0] is None else lim[0])) & (full <= (numpy.inf if lim[1] is None else lim[1]))]
                    if acc[0] != "ok":
                        ctx.violation("PointIsotherm.pressure/limits/raises", "pressure(limits=) raised", exc=acc[1], stored=a, requested=b, limits=lim)
                    elif not _arr_close(acc[1], sel, rt):
                        ctx.violation("PointIsotherm.pressure/limits/selection", "pressure(limits=) is not exactly the points inside the limits, in order", got=acc[1], expected=sel, stored=a, requested=b, limits=lim)
        # (b) loading_at with the pressure supplied in foreign units == native query after reference conversion
        try:
            f = RU.pressure_factor(b[0], b[1], a[0], a[1], fl, RU.temperature(spec["temperature"], units["temperature_unit"], "K"))  # requested -> stored
        except Exception:
            ctx.count("reference_unavailable", "pressure")
            continue
        ps = spec["pressure"][:na]
        q_native = [(ps[i] + ps[i + 1]) / 2 for i in range(na - 1)]
        for q in q_native[:3]:
            nat = _call(iso.loading_at, q)
            got = _call(iso.loading_at, q / f, **pkw)
            ctx.case(["loading_at-foreign-pressure", a, b])
            ctx.count("foreign_queries", "loading_at")
            rt2 = max(RU.rtol_for(a[1], b[1]) * 5, 1e-9)
            if nat[0] != "ok":
                continue
            if got[0] != "ok":
                ctx.violation("PointIsotherm.loading_at/foreign-pressure/raises", "loading_at with the pressure in foreign units raised", exc=got[1], stored=a, given=b, q=q / f)
            elif not close(float(got[1]), float(nat[1]), rt2) and not _within_pressure_band(iso, q, float(got[1]), RU.rtol_for(a[1], b[1]) * 2):
                # (where pyGAPS's unit table is rounded - torr, mmHg - the supplied pressure is off by up to 3e-4; the loading
                # follows with the local slope of the isotherm, hence the band in pressure rather than a tolerance on the loading)
                ctx.violation("PointIsotherm.loading_at/foreign-pressure/value", "a pressure supplied in foreign units is not interpreted like the native one", got=got[1], expected=nat[1], stored=a, given=b)
        # pressure_at returning in requested units == converted copy's native pressure_at
        ls = spec["loading"][:na]
        ql = (ls[0] + ls[1]) / 2
        acc = _call(iso.pressure_at, ql, **pkw)
        ctx.case(["pressure_at-requested", a, b], nontrivial=a != b)
        _judge(ctx, "PointIsotherm.pressure_at/%s->%s" % (a[0], b[0]), "pressure_at(pressure_unit/mode=)", acc, cp, cexc, lambda c: c.pressure_at(ql), max(rt, 1e-9), stored=a, requested=b)


# ------------------------------------------------------------------ loading + material


def _run_loading_pairs(case, ctx):
    r = gen.rng(case["seed"], "lp")
    sl, sm = tuple(case["stored_l"]), tuple(case["stored_m"])
    units = dict(gen.DEFAULT_UNITS, loading_basis=sl[0], loading_unit=sl[1], material_basis=sm[0], material_unit=sm[1], temperature_unit="°C" if case["seed"] % 2 else "K")
    mp = gen.material_props(r)
    spec, iso = _mk(r, units, case["ads"], case["T"], mp, two=True, n=8, lscale=1e-6 if case["seed"] % 3 == 0 else 1.0)
    fl = RU.fluid(gen.backend_of(case["ads"]))
    T_K = RU.temperature(spec["temperature"], units["temperature_unit"], "K")
    na = spec["branch"].count(0)
    reqs = [(rl, rm) for rl in RU.LOADING_REPR for rm in RU.MATERIAL_REPR]
    reqs = r.sample(reqs, min(case["nreq"], len(reqs)))
    # always include: same material (loading only) and same loading (material only)
    reqs += [(r.choice(RU.LOADING_REPR), None), (None, r.choice(RU.MATERIAL_REPR)), (sl, sm)]
    for rl, rm in reqs:
        lkw = {"loading_basis": rl[0], "loading_unit": rl[1]} if rl else None
        mkw = {"material_basis": rm[0], "material_unit": rm[1]} if rm else None
        kw = {}
        kw.update(lkw or {})
        kw.update(mkw or {})
        cp, cexc = _converted_copy(iso, lkw=lkw, mkw=mkw)
        frac = "fraction" if sl[0] in ("fraction", "percent") else "physical"
        rfrac = "fraction" if (rl and rl[0] in ("fraction", "percent")) else "physical" if rl else "same"
        mch = "material-basis-change" if (rm and rm[0] != sm[0]) else "material-unit-change" if (rm and rm != sm) else "material-same"
        cls = "stored-%s/req-%s/%s" % (frac, rfrac, mch)
        rt = 1e-9
        nontriv = (rl is not None and tuple(rl) != sl) or (rm is not None and tuple(rm) != sm)
        mat_changed = mch != "material-same"
        mech_l = mech_at = None
        if frac == "fraction" and mat_changed:
            # the accessors apply c_material to a fractional loading without the simultaneous numerator
            # conversion that the permanent convert_material performs
            mech_l = "PointIsotherm.loading/stored-fraction-with-material-change/scale-error"
            mech_at = "PointIsotherm.loading_at/stored-fraction-with-material-change/scale-error"
        elif rfrac == "fraction" and mat_changed:
            # loading_at converts its result to fraction/percent relative to the *stored* material
            mech_at = "PointIsotherm.loading_at/requested-fraction-uses-stored-material/scale-error"
        values_ok = True
        for branch in (None, "des"):
            acc = _call(iso.loading, branch=branch, **kw)
            ctx.case(["loading", sl, sm, rl, rm, branch], nontrivial=nontriv)
            ctx.count("loading_classes", cls)
            ok_ = _judge(ctx, "PointIsotherm.loading/%s" % cls, "loading()", acc, cp, cexc, lambda c: c.loading(branch=branch), rt, stored=[sl, sm], requested=[rl, rm], branch=branch, mechanism=mech_l)
            values_ok = values_ok and ok_ is not False
        # loading_at returning requested units
        ps = spec["pressure"][:na]
        q = (ps[0] + ps[1]) / 2
        acc = _call(iso.loading_at, q, **kw)
        ctx.case(["loading_at-requested", sl, sm, rl, rm], nontrivial=nontriv)
        _judge(ctx, "PointIsotherm.loading_at/%s" % cls, "loading_at(loading/material=)", acc, cp, cexc, lambda c: c.loading_at(q), rt, stored=[sl, sm], requested=[rl, rm], mechanism=mech_at)
        # pressure_at with the loading supplied in requested units: query = converted copy's native loading
        if cp is not None and rl is not None and rm is not None and rl[1] is not None:
            lcp = cp.loading(branch="ads")
            ql = (lcp[0] + lcp[1]) / 2
            nat = _call(cp.pressure_at, ql)
            got = _call(iso.pressure_at, ql, **kw)
            ctx.case(["pressure_at-foreign-loading", sl, sm, rl, rm], nontrivial=nontriv)
            ctx.count("foreign_queries", "pressure_at")
            if nat[0] == "ok":
                if got[0] != "ok":
                    ctx.violation("PointIsotherm.pressure_at/foreign-loading/%s/raises" % cls, "pressure_at with the loading in foreign units raised", exc=got[1], stored=[sl, sm], given=[rl, rm])
                elif not close(float(got[1]), float(nat[1]), 1e-7):
                    ctx.violation("PointIsotherm.pressure_at/foreign-loading/%s/value" % cls, "a loading supplied in foreign units is not interpreted like on the permanently converted copy", got=got[1], expected=nat[1], stored=[sl, sm], given=[rl, rm])
        # limits on loading in requested units (only meaningful when the unrestricted values agree)
        if cp is not None and values_ok:
            full = cp.loading(branch="ads")
            if len(full) >= 3 and numpy.all(numpy.isfinite(full)):
                lo, hi = (full[0] + full[1]) / 2, (full[-2] + full[-1]) / 2
                acc = _call(iso.loading, branch="ads", limits=(lo, hi), **kw)
                sel = full[(full >= lo) & (full <= hi)]
                ctx.case(["loading-limits", sl, sm, rl, rm])
                if acc[0] == "ok" and not _arr_close(acc[1], sel, 1e-9):
                    ctx.violation("PointIsotherm.loading/limits/selection/%s" % cls, "loading(limits=) is not exactly the points inside the limits", got=acc[1], expected=sel, stored=[sl, sm], requested=[rl, rm])


# ------------------------------------------------------------------ selection (c)


def _run_selection(case, ctx):
    r = gen.rng(case["seed"], "sel")
    units = gen.random_units(r) if r.random() < 0.5 else None
    spec = gen.point_spec(r, n=r.randint(1, 40), units=units, extras=True, meta={})
    route = r.choice(["df", "df_offset", "df_perm", "df_str", "df_cols", "df_branchcol"])
    if case["seed"] % 4 == 1 and spec["branch"] and spec["branch"][0] == 0:
        # a series that starts with the origin point (a reading at exactly zero pressure is a stored point like any other)
        spec["pressure"][0], spec["loading"][0] = 0.0, 0.0
        ctx.count("selection", "starts-with-the-origin-point")
    if case["seed"] % 3 == 0 and len(spec["branch"]) >= 3:
        # marks assigned by the user in whatever layout the experiment had (desorption scan inside the adsorption run, desorption
        # recorded before a re-adsorption): not "all adsorption rows, then all desorption rows"
        marks = [r.randint(0, 1) for _ in spec["branch"]]
        if sorted(marks) == marks:
            marks = marks[::-1] if len(set(marks)) > 1 else [1, 0] + marks[2:]
        spec["branch"] = marks
        ctx.count("selection", "interleaved-branch-marks")
    iso = gen.build_point(spec, route)
    p, l, b = numpy.array(spec["pressure"]), numpy.array(spec["loading"]), numpy.array(spec["branch"])
    ctx.sample({"spec_units": spec["units"], "n": len(p), "route": route}) if r.random() < 0.03 else None
    for branch, mask in ((None, numpy.ones(len(p), bool)), ("all", numpy.ones(len(p), bool)), ("ads", b == 0), ("des", b == 1)):
        for name, col, fn in (("pressure", p, iso.pressure), ("loading", l, iso.loading)):
            got = _call(fn, branch=branch)
            ctx.case(["selection", name, branch, route])
            ctx.count("selection", "%s/%s" % (name, branch))
            if got[0] != "ok" or not _arr_close(got[1], col[mask], 0.0):
                ctx.violation("PointIsotherm.%s/branch-selection" % name, "branch selection is not exactly the stored points of that branch in measurement order", branch=branch, route=route, got=got[1], expected=col[mask])
            gi = _call(fn, branch=branch, indexed=True)
            if gi[0] != "ok" or not isinstance(gi[1], pandas.Series) or not _arr_close(gi[1].values, col[mask], 0.0):
                ctx.violation("PointIsotherm.%s/indexed" % name, "indexed=True does not return the same points as a Series", branch=branch, got=gi[1])
            sub = col[mask]
            if len(sub) >= 2:
                srt = numpy.sort(sub)
                k = r.randrange(len(srt) - 1)
                k2 = r.randrange(k, len(srt) - 1)
                lo = (srt[k] + srt[k + 1]) / 2
                hi = (srt[k2] + srt[min(k2 + 1, len(srt) - 1)]) / 2 if k2 + 1 < len(srt) else srt[-1] + 1
                # (the last two: limits read off the table itself - a stored point whose value *is* the minimum or maximum asked for
                # belongs to the slice; the closed interval is the rule of all three accessors of a point isotherm)
                for lim in ((lo, hi), (lo, None), (None, hi), (None, None), (srt[-1] + 1.0, None), (hi, lo), (float(srt[k]), float(srt[min(k2 + 1, len(srt) - 1)])), (float(srt[k]), None)):
                    got = _call(fn, branch=branch, limits=lim)
                    a_ = -numpy.inf if lim[0] is None else lim[0]
                    b_ = numpy.inf if lim[1] is None else lim[1]
                    exp = sub[(sub >= a_) & (sub <= b_)]
                    ctx.case(["selection-limits", name, branch, [x is None for x in lim], len(exp) == 0])
                    if got[0] != "ok" or not _arr_close(got[1], exp, 0.0):
                        ctx.violation("PointIsotherm.%s/limit-selection" % name, "limit selection is not exactly the stored points inside the limits, in order", branch=branch, limits=lim, got=got[1], expected=exp)
        for key, vals in spec["extra"].items():
            got = _call(iso.other_data, key, branch=branch)
            ctx.case(["selection", "other_data", branch])
            if got[0] != "ok" or not _arr_close(got[1], numpy.array(vals)[mask], 0.0):
                ctx.violation("PointIsotherm.other_data/branch-selection", "other_data does not return the stored values of the branch", key=key, branch=branch, got=got[1])
    # what every characterisation routine reads
    from pygaps.utilities.pygaps_utilities import get_iso_loading_and_pressure_ordered
    for branch, mask in (("ads", b == 0), ("des", b == 1)):
        if not mask.any():
            continue
        got = _call(get_iso_loading_and_pressure_ordered, iso, branch, {}, {})
        ctx.case(["ordered", branch])
        ep, el = p[mask], l[mask]
        if branch == "des":
            ep, el = ep[::-1], el[::-1]
        if got[0] != "ok" or not _arr_close(got[1][0], ep, 0.0) or not _arr_close(got[1][1], el, 0.0):
            ctx.violation("get_iso_loading_and_pressure_ordered/order", "ordered read is not the branch in increasing-pressure order", branch=branch, got=got[1])


# ------------------------------------------------------------------ branch guess (d)


def _expected_marks(p):
    """Rows up to and including the first pressure maximum are adsorption, the rest desorption."""
    k = int(numpy.argmax(p))
    marks = numpy.zeros(len(p), dtype=int)
    marks[k + 1:] = 1
    return marks


def _run_branch_guess(case, ctx):
    import pygaps
    r = gen.rng(case["seed"], "bg")
    n = r.randint(2, 25)
    shape = case["shape"]
    up = sorted(round(r.uniform(0.01, 1.0), 5) for _ in range(n))
    if shape == 0:  # maximum at the last row
        p = up
    elif shape == 1:  # maximum at the first row (pure desorption)
        p = up[::-1]
    elif shape == 2:  # maximum in the middle
        k = r.randint(1, n - 1)
        p = up[:k] + sorted((round(r.uniform(0.001, up[k - 1] * 0.99), 5) for _ in range(n - k)), reverse=True)
    elif shape == 3:  # tie at the maximum
        k = r.randint(1, n - 1)
        p = up[:k] + [up[k - 1]] + sorted((round(r.uniform(0.001, up[k - 1] * 0.99), 5) for _ in range(n - k - 1)), reverse=True)
    elif shape == 4:  # integer-valued
        k = r.randint(1, n)
        p = list(range(1, k + 1)) + list(range(k - 1, k - 1 - (n - k), -1))
        p = [max(x, -50) for x in p]
    else:  # single/two rows
        p = up[:2]
    p = list(p)
    l = [float(i + 1) for i in range(len(p))]
    kw = dict(material="verif-bg", adsorbate="nitrogen", temperature=77.0, **gen.DEFAULT_UNITS)
    routes = {}
    n = len(p)
    perm = list(range(n))
    r.shuffle(perm)
    deliver = {
        "lists": lambda: pygaps.PointIsotherm(pressure=list(p), loading=list(l), **kw),
        "ndarray": lambda: pygaps.PointIsotherm(pressure=numpy.array(p, dtype=float), loading=numpy.array(l), **kw),
        "df": lambda: pygaps.PointIsotherm(isotherm_data=pandas.DataFrame({"pressure": p, "loading": l}), pressure_key="pressure", loading_key="loading", **kw),
        "df_offset1": lambda: pygaps.PointIsotherm(isotherm_data=pandas.DataFrame({"pressure": p, "loading": l}, index=range(1, n + 1)), pressure_key="pressure", loading_key="loading", **kw),
        "df_offset5": lambda: pygaps.PointIsotherm(isotherm_data=pandas.DataFrame({"pressure": p, "loading": l}, index=range(5, n + 5)), pressure_key="pressure", loading_key="loading", **kw),
        "df_perm": lambda: pygaps.PointIsotherm(isotherm_data=pandas.DataFrame({"pressure": p, "loading": l}, index=perm), pressure_key="pressure", loading_key="loading", **kw),
        "df_str": lambda: pygaps.PointIsotherm(isotherm_data=pandas.DataFrame({"pressure": p, "loading": l}, index=["r%d" % i for i in range(n)]), pressure_key="pressure", loading_key="loading", **kw),
        "df_float32": lambda: pygaps.PointIsotherm(isotherm_data=pandas.DataFrame({"pressure": numpy.array(p, dtype=numpy.float64), "loading": numpy.array(l, dtype=numpy.float32)}), pressure_key="pressure", loading_key="loading", **kw),
    }
    if shape == 4:
        deliver["int-lists"] = lambda: pygaps.PointIsotherm(pressure=[int(x) for x in p], loading=[int(x) for x in l], **kw)
    for name, mk in deliver.items():
        st, iso = _call(mk)
        ctx.case(["branch-guess", shape, name, n])
        ctx.count("branch_guess_routes", name)
        if st != "ok":
            ctx.violation("branch-guess/raises/%s" % name, "construction with guessed branches raised", exc=iso, p=p)
            continue
        routes[name] = [int(x) for x in iso.data_raw["branch"].tolist()]
    exp = [int(x) for x in _expected_marks(numpy.array(p, dtype=float))]
    all_des = [1] * n
    base = routes.get("lists")
    for name, marks in routes.items():
        if marks != base:
            ctx.violation("branch-guess/depends-on-route", "branch marks of the same pressure sequence differ between delivery routes (row labels / types)", p=p, route=name, marks=marks, marks_lists=base,
                          max_at_first_row=int(numpy.argmax(p)) == 0)
        ok = marks == exp or (int(numpy.argmax(p)) == 0 and n > 1 and marks == all_des)
        if not ok:
            ctx.violation("branch-guess/rule", "branch marks are not 'up to and including the first pressure maximum = adsorption, rest = desorption'", p=p, route=name, marks=marks, expected=exp)


# ------------------------------------------------------------------ interpolation (e)


def _run_interp(case, ctx):
    r = gen.rng(case["seed"], "ip")
    units = gen.random_units(r) if r.random() < 0.3 else None
    spec = gen.point_spec(r, n=r.randint(3, 30), units=units, extras=False, meta={})
    iso = gen.build_point(spec, r.choice(["df", "lists", "df_offset"]))
    p, l, b = numpy.array(spec["pressure"]), numpy.array(spec["loading"]), numpy.array(spec["branch"])
    # both orders of visiting the branches (the interpolators of one branch must not answer for the other), adsorption once more at the end
    order = (("ads", b == 0), ("des", b == 1), ("ads", b == 0)) if case["seed"] % 2 else (("des", b == 1), ("ads", b == 0), ("des", b == 1))
    for branch, mask in order:
        pp, ll = p[mask], l[mask]
        if len(pp) < 2:
            continue
        # at measured points
        got = _call(iso.loading_at, pp, branch=branch)
        ctx.case(["interp", "at-points", branch])
        ctx.count("interp", "at-points")
        if got[0] != "ok" or not _arr_close(got[1], ll, 1e-12):
            ctx.violation("PointIsotherm.loading_at/at-measured-points", "interpolated loading does not coincide with the data at measured points", branch=branch, got=got[1], expected=ll)
        got = _call(iso.pressure_at, ll, branch=branch)
        if got[0] != "ok" or not _arr_close(got[1], pp, 1e-12):
            ctx.violation("PointIsotherm.pressure_at/at-measured-points", "interpolated pressure does not coincide with the data at measured points", branch=branch, got=got[1], expected=pp)
        # on the chord
        k = r.randrange(len(pp) - 1)
        t = r.uniform(0.05, 0.95)
        q = pp[k] + t * (pp[k + 1] - pp[k])
        e = ll[k] + t * (ll[k + 1] - ll[k])
        for scalar_kind in ("float", "array", "list"):
            arg = float(q) if scalar_kind == "float" else numpy.array([q]) if scalar_kind == "array" else [q]
            got = _call(iso.loading_at, arg, branch=branch)
            ctx.case(["interp", "chord", branch, scalar_kind])
            ctx.count("interp", "chord")
            if got[0] != "ok" or not close(float(numpy.asarray(got[1]).ravel()[0]), e, 1e-10):
                ctx.violation("PointIsotherm.loading_at/chord", "default interpolation is not on the straight line between neighbours", branch=branch, q=q, got=got[1], expected=e)
        ql = ll[k] + t * (ll[k + 1] - ll[k])
        ep = pp[k] + t * (pp[k + 1] - pp[k])
        got = _call(iso.pressure_at, ql, branch=branch)
        if got[0] != "ok" or not close(float(got[1]), ep, 1e-10):
            ctx.violation("PointIsotherm.pressure_at/chord", "default interpolation is not on the straight line between neighbours", branch=branch, q=ql, got=got[1], expected=ep)
        # outside the range
        lo, hi = pp.min(), pp.max()
        for q in (lo - 0.1 * abs(lo) - 1e-3, hi + 0.1 * abs(hi) + 1e-3):
            got = _call(iso.loading_at, q, branch=branch)
            ctx.case(["interp", "outside", branch])
            ctx.count("interp", "outside-refused" if got[0] != "ok" else "outside-returned")
            if got[0] == "ok":
                ctx.violation("PointIsotherm.loading_at/outside-range-not-refused", "interpolation outside the measured range returned a value without a fill rule", branch=branch, q=q, got=got[1])
            fill = r.choice([round(r.uniform(1, 9), 3), 0.0, 0, round(r.uniform(1, 9), 3)])
            got = _call(iso.loading_at, q, branch=branch, interp_fill=fill)
            ctx.case(["interp", "outside-fill", branch])
            if got[0] != "ok" or not close(float(got[1]), fill, 1e-12):
                ctx.violation("PointIsotherm.loading_at/fill-rule", "fill rule not honoured outside the measured range", branch=branch, q=q, fill=fill, got=got[1])
            got = _call(iso.loading_at, q, branch=branch, interp_fill="extrapolate")
            j = 0 if q < lo else len(pp) - 2
            srt = numpy.argsort(pp)
            xs, ys = pp[srt], ll[srt]
            ex = ys[j] + (q - xs[j]) * (ys[j + 1] - ys[j]) / (xs[j + 1] - xs[j])
            if got[0] != "ok" or not close(float(got[1]), ex, 1e-9, 1e-12):
                ctx.violation("PointIsotherm.loading_at/extrapolate", "'extrapolate' fill rule does not continue the end segment", branch=branch, q=q, got=got[1], expected=ex)
            # and then, without fill, it must be refused again
            got = _call(iso.loading_at, q, branch=branch)
            if got[0] == "ok":
                ctx.violation("PointIsotherm.loading_at/outside-range-not-refused-after-fill", "after a call with a fill rule, a call without one is no longer refused outside the range", branch=branch, q=q, got=got[1])
        # other interpolation kinds still reproduce the data at measured points
        for kind in ("nearest", "zero", "slinear", "quadratic", "cubic"):
            if len(pp) < 4:
                continue
            got = _call(iso.loading_at, pp, branch=branch, interpolation_type=kind)
            ctx.case(["interp", "kind", kind, branch])
            if got[0] != "ok" or not _arr_close(got[1], ll, 1e-9):
                ctx.violation("PointIsotherm.loading_at/kind-at-measured-points/%s" % kind, "interpolation kind does not reproduce the data at measured points", kind=kind, branch=branch, got=got[1], expected=ll)
        # back to the default: chord again (cache must not leak the previous kind/branch)
        got = _call(iso.loading_at, float(q if False else pp[k] + t * (pp[k + 1] - pp[k])), branch=branch)
        if got[0] != "ok" or not close(float(got[1]), e, 1e-10):
            ctx.violation("PointIsotherm.loading_at/chord-after-other-kinds", "default interpolation differs after calls with other kinds", branch=branch, got=got[1], expected=e)


# ------------------------------------------------------------------ model isotherm whole-branch accessors


def _run_model_branch(case, ctx):
    import pygaps
    name = case["model"]
    r = gen.rng(case["seed"], "mb")
    P = GM.random_params(name, r)
    ads_name, T = r.choice(gen.FIXED_CONTEXTS)
    fl = RU.fluid(gen.backend_of(ads_name))
    units = gen.random_units(r, relative_ok=True, fraction_ok=False)
    if name in ("DR", "DA"):
        units["pressure_mode"], units["pressure_unit"] = "relative", None
    mp = gen.material_props(r)
    explicit_p = name in GM.PRESSURE_EXPLICIT
    if explicit_p:
        lo, hi = GM.loading_window(name, P)
        if not hi > 0:
            return
        model = GM.make_model(name, P, loading_range=(hi * 0.05, hi * 0.6), pressure_range=(0.0, 1.0), temperature=T)
    else:
        lo, hi = GM.pressure_window(name, P)
        model = GM.make_model(name, P, pressure_range=(hi * 0.01, hi * 0.8), loading_range=(0.0, 1.0), temperature=T)
    Tst = T if units["temperature_unit"] == "K" else T - 273.15
    iso = pygaps.ModelIsotherm(model=model, material=dict(name="verif-mb-%d" % case["seed"], **mp), adsorbate=ads_name, temperature=Tst, **units)
    native_p = (units["pressure_mode"], units["pressure_unit"])
    native_l = (units["loading_basis"], units["loading_unit"])
    native_m = (units["material_basis"], units["material_unit"])
    npts = 7
    st, p_nat = _call(iso.pressure, npts)
    st2, l_nat = _call(iso.loading, npts)
    if st != "ok" or st2 != "ok":
        if name in GM.NUMERIC_INVERSE:
            ctx.count("numeric_inverse", name + "/native-branch-refused")
            return
        ctx.violation("ModelIsotherm.%s/native-raises" % ("pressure" if st != "ok" else "loading"), "native whole-branch accessor raised", model=name, P=P, exc=p_nat if st != "ok" else l_nat)
        return
    p_nat, l_nat = numpy.asarray(p_nat, dtype=float), numpy.asarray(l_nat, dtype=float)
    # native consistency: loading() are the model's loadings at pressure()
    ctx.case(["model-branch", name, "native"])
    for q in range(5):
        rp = r.choice(RU.PRESSURE_REPR)
        rl = r.choice(RU.LOADING_REPR)
        rm = r.choice(RU.MATERIAL_REPR)
        try:
            fp = RU.pressure_factor(native_p[0], native_p[1], rp[0], rp[1], fl, T)
            fln = RU.full_loading_factor(native_l, native_m, rl, rm, fl, T, mp["density"], mp["molar_mass"])
        except Exception:
            ctx.count("reference_unavailable", "model_branch")
            continue
        rt = max(RU.rtol_for(rp[1], native_p[1], rl[1], native_l[1], rm[1], native_m[1]) * 3, 1e-9)
        got = _call(iso.pressure, npts, pressure_mode=rp[0], pressure_unit=rp[1])
        ctx.case(["model-branch", name, "pressure", native_p, rp], nontrivial=tuple(rp) != native_p)
        ctx.count("model_branch", "pressure")
        if got[0] != "ok":
            ctx.violation("ModelIsotherm.pressure/requested-units/raises", "whole-branch pressure in requested units raised", model=name, units=units, req=rp, exc=got[1])
        elif not _arr_close(got[1], p_nat * fp, rt):
            ctx.violation("ModelIsotherm.pressure/requested-units/value", "whole-branch pressure in requested units differs from the reference conversion of the native values", model=name, units=units, req=rp, got=got[1], expected=p_nat * fp)
        frac = rl[0] in ("fraction", "percent")
        got = _call(iso.loading, npts, loading_basis=rl[0], loading_unit=rl[1], material_basis=rm[0], material_unit=rm[1])
        cls = "req-%s/%s" % ("fraction" if frac else "physical", "material-basis-change" if rm[0] != native_m[0] else "material-unit-change" if tuple(rm) != native_m else "material-same")
        ctx.case(["model-branch", name, "loading", native_l, native_m, rl, rm])
        ctx.count("model_branch", "loading/" + cls)
        if got[0] != "ok":
            ctx.violation("ModelIsotherm.loading/%s/raises" % cls, "whole-branch loading in requested units raised", model=name, units=units, req=[rl, rm], exc=got[1])
        elif not _arr_close(got[1], l_nat * fln, rt):
            ctx.violation("ModelIsotherm.loading/%s/value" % cls, "whole-branch loading in requested units differs from the reference conversion of the native values", model=name, units=units, req=[rl, rm], got=got[1], expected=l_nat * fln)
        # point evaluation with fraction/percent requests (C10 covers the physical bases)
        if frac and not explicit_p:
            pq = float(p_nat[len(p_nat) // 2])
            nq = float(numpy.asarray(model.loading(pq)).ravel()[0])
            got = _call(iso.loading_at, pq, loading_basis=rl[0], loading_unit=rl[1], material_basis=rm[0], material_unit=rm[1])
            ctx.case(["model-branch", name, "loading_at-fraction", native_l, native_m, rl, rm])
            if got[0] != "ok":
                ctx.violation("ModelIsotherm.loading_at/%s/raises" % cls, "loading_at with a fraction/percent request raised", model=name, units=units, req=[rl, rm], exc=got[1])
            elif not close(float(numpy.asarray(got[1]).ravel()[0]), nq * fln, rt):
                ctx.violation("ModelIsotherm.loading_at/%s/value" % cls, "loading_at with a fraction/percent request differs from the reference conversion", model=name, units=units, req=[rl, rm], got=got[1], expected=nq * fln)
    # slices of the whole curves between limits: two-sided, one-sided (None = no limit), empty
    for acc, nat in (("loading", l_nat), ("pressure", p_nat)):
        srt = numpy.unique(nat)
        if len(srt) < 5:
            continue
        # limits strictly between distinct values of the curve (whether a value *equal* to a limit belongs to the slice is not
        # something the property fixes; the two isotherm classes differ there)
        a_, b_ = float((srt[1] + srt[2]) / 2), float((srt[-3] + srt[-2]) / 2)
        if not (srt[1] < a_ < srt[2] and srt[-3] < b_ < srt[-2]):
            continue
        for lim in ((a_, b_), (None, b_), (a_, None), (None, None), (b_, a_)):
            got = _call(getattr(iso, acc), npts, limits=lim)
            ctx.case(["model-branch", name, acc + "-limits", [x is None for x in lim], lim[0] is not None and lim[1] is not None and lim[0] > lim[1]])
            ctx.count("model_branch", acc + "-limits")
            exp = nat[(nat >= (-numpy.inf if lim[0] is None else lim[0])) & (nat <= (numpy.inf if lim[1] is None else lim[1]))]
            if got[0] != "ok":
                ctx.violation("ModelIsotherm.%s/limits/raises" % acc, "a slice of the model curve between limits raised", model=name, limits=lim, exc=got[1])
            elif not _arr_close(got[1], exp, 1e-12):
                ctx.violation("ModelIsotherm.%s/limits/selection" % acc, "a slice of the model curve is not the whole curve restricted to the limits", model=name, limits=lim, got=got[1], expected=exp, whole=nat)
    # branch argument
    for br, should in (("ads", True), (None, True), ("des", False)):
        got = _call(iso.loading_at, float(p_nat[1]), branch=br)
        ctx.case(["model-branch", "branch-arg", br])
        if (got[0] == "ok") != should and name not in GM.NUMERIC_INVERSE:
            ctx.violation("ModelIsotherm.loading_at/branch-argument", "branch argument handling wrong (model is on the adsorption branch)", branch=br, outcome=got[0])


def finalize(ctx):
    reasons = []
    if len(ctx.tables.get("pressure_pairs", {})) < 9:
        reasons.append("not all 9 pressure mode pairs exercised")
    if sum(ctx.tables.get("loading_classes", {}).values()) < 500:
        reasons.append("too few loading accessor comparisons")
    if sum(ctx.tables.get("selection", {}).values()) < 200:
        reasons.append("too few selection comparisons")
    if sum(ctx.tables.get("branch_guess_routes", {}).values()) < 200:
        reasons.append("too few branch-guess constructions")
    if sum(ctx.tables.get("interp", {}).values()) < 200:
        reasons.append("too few interpolation comparisons")
    if sum(ctx.tables.get("model_branch", {}).values()) < 100:
        reasons.append("too few model isotherm comparisons")
    for label, (hit, tot) in ctx.reach.items():
        if tot and not hit:
            reasons.append("anchored function %s never entered" % label)
    return reasons
