"""C13 — IAST results satisfy the IAST equations and known closed forms (postcondition monitor)."""

import itertools
import math

import numpy

from pgverif import gen
from pgverif import models as GM
from pgverif.core import close

LEVEL = "exploration"
RULE = (
    "case = one mixture (2-4 pure-component isotherms: IAST-capable models with spreading pressure defined for all p > 0, "
    "or dense point isotherms sampled from them) + partial pressures; evaluations = checks on every *returned* result "
    "(mole fractions, equal spreading pressures at p_i/x_i recomputed through the isotherms' own spreading_pressure_at, "
    "ideal mixing rule, closed forms, permutation invariance, reverse/forward inversion, helper identities, arguments "
    "left unmodified); refusals (CalculationError) are counted as trivial; distinct = (mixture digest, clause)"
)
ASSUMPTIONS = [
    "residuals use the isotherms' own spreading pressure (whether that is the integral of the loading is C11's question); "
    "Henry and equal-capacity Langmuir closed forms anchor the check independently of the library",
    "tolerances: spreading-pressure equality 1e-6 relative (the solver's), mixing rule 1e-9, closed forms 1e-6",
]
NSHARDS = {"quick": 16, "thorough": 16}
TIMEOUT = {"quick": 240, "thorough": 2400}
MIX_MODELS = ["Henry", "Langmuir", "DSLangmuir", "TSLangmuir", "Quadratic", "TemkinApprox", "Toth", "JensenSeaton"]


def anchors():
    from pygaps.iast import pgiast
    return [("iast_point", pgiast.iast_point), ("iast_point_fraction", pgiast.iast_point_fraction), ("reverse_iast", pgiast.reverse_iast), ("iast_binary_svp", pgiast.iast_binary_svp),
            ("iast_binary_vle", pgiast.iast_binary_vle)]


def gen_cases(tier, seed):
    r = gen.rng(seed, "c13")
    n = 160 if tier == "quick" else 12000
    for i in range(n):
        kind = ["general", "henry", "langmuir-equal", "general", "point", "general"][i % 6]
        if i % 4 == 3:
            kind = "trace-edges"
        yield {"kind": "mixture", "flavour": kind, "seed": r.randrange(1 << 30), "ncomp": [2, 3, 4, 2, 5, 3, 4][(i // 6) % 7] if kind != "point" else 2 + ((i // 6) % 3)}
    for i in range(12 if tier == "quick" else 400):
        yield {"kind": "helpers", "seed": r.randrange(1 << 30)}


def run_case(case, ctx):
    ctx.count("case_kinds", case["kind"] + "/" + case.get("flavour", ""))
    globals()["_run_" + case["kind"]](case, ctx)


def _call(fn, *a, **k):
    try:
        with numpy.errstate(all="ignore"):
            return ("ok", fn(*a, **k))
    except Exception as exc:
        return ("exc", exc)


def _is_calc(exc):
    from pygaps.utilities.exceptions import CalculationError
    return isinstance(exc, CalculationError)


def _params(name, r):
    lu = gen.log_uniform
    if name == "Henry":
        return {"K": round(lu(r, 0.05, 20), 6)}
    if name == "Langmuir":
        return {"K": round(lu(r, 0.05, 50), 6), "n_m": round(lu(r, 0.5, 10), 6)}
    if name == "DSLangmuir":
        return {"n_m1": round(lu(r, 0.3, 5), 6), "K1": round(lu(r, 0.05, 50), 6), "n_m2": round(lu(r, 0.3, 5), 6), "K2": round(lu(r, 0.05, 50), 6)}
    if name == "TSLangmuir":
        return {"n_m1": round(lu(r, 0.3, 4), 6), "n_m2": round(lu(r, 0.3, 4), 6), "n_m3": round(lu(r, 0.3, 4), 6), "K1": round(lu(r, 0.05, 50), 6), "K2": round(lu(r, 0.05, 50), 6), "K3": round(lu(r, 0.05, 50), 6)}
    if name == "Quadratic":
        return {"n_m": round(lu(r, 0.5, 5), 6), "Ka": round(lu(r, 0.05, 20), 6), "Kb": round(lu(r, 0.01, 20), 6)}
    if name == "TemkinApprox":
        return {"n_m": round(lu(r, 0.5, 10), 6), "K": round(lu(r, 0.05, 50), 6), "tht": round(r.uniform(0, 1.5), 6)}
    if name == "Toth":
        return {"n_m": round(lu(r, 0.5, 10), 6), "K": round(lu(r, 0.05, 50), 6), "t": round(r.uniform(0.4, 2.0), 6)}
    if name == "JensenSeaton":
        return {"K": round(lu(r, 0.5, 50), 6), "a": round(lu(r, 0.5, 10), 6), "b": round(lu(r, 0.01, 1), 6), "c": round(r.uniform(0.5, 2.0), 6)}
    raise KeyError(name)


ADS = ["nitrogen", "methane", "carbon dioxide", "argon"]


def _model_iso(name, P, i):
    import pygaps
    m = GM.make_model(name, P, pressure_range=(0.0, 1000.0), loading_range=(0.0, 100.0), temperature=298.0)
    return pygaps.ModelIsotherm(model=m, material="verif-c13", adsorbate=ADS[i % 4], **dict(gen.DEFAULT_UNITS, **gen.temp_kw(298.0)))


def _point_iso(name, P, i):
    iso = _point_iso_fresh(name, P, i)
    hr = gen.rng(repr(sorted(P.items())), "history")
    if hr.random() < 0.5:
        # an isotherm that has been looked at before it enters the mixture calculation: read with a smoother interpolant
        # (as a plot or a report would), on either axis. IAST is defined on the piecewise-linear interpolant whatever came before.
        kind = hr.choice(["cubic", "quadratic", "slinear", "nearest"])
        try:
            with numpy.errstate(all="ignore"):
                iso.loading_at(float(hr.uniform(0.01, 50.0)), interpolation_type=kind)
                if hr.random() < 0.5:
                    iso.pressure_at(float(numpy.median(iso.loading(branch="ads"))), interpolation_type=kind)
        except Exception:
            pass
    return iso


def _point_iso_fresh(name, P, i):
    import pygaps
    m = GM.make_model(name, P, temperature=298.0)
    ps = numpy.exp(numpy.linspace(math.log(1e-4), math.log(1e4), 400))
    ls = numpy.asarray(m.loading(ps), dtype=float)
    if i % 3 == 2:
        # as an instrument reports it: loadings rounded to two decimals (runs of equal values on the plateau)
        ls = numpy.round(ls, 2)
        keep = ls > 0
        ps, ls = ps[keep], ls[keep]
    if i % 2:
        # with a (hysteretic) desorption branch as well: IAST works on the adsorption branch unless told otherwise
        pd_ = ps[::-7][1:]
        ld = numpy.interp(pd_, ps, ls) * 1.15 + 0.01
        return pygaps.PointIsotherm(pressure=list(ps) + list(pd_), loading=list(ls) + list(ld), branch=[False] * len(ps) + [True] * len(pd_), material="verif-c13p", adsorbate=ADS[i % 4],
                                    **dict(gen.DEFAULT_UNITS, **gen.temp_kw(298.0)))
    return pygaps.PointIsotherm(pressure=list(ps), loading=list(ls), branch="ads", material="verif-c13p", adsorbate=ADS[i % 4], **dict(gen.DEFAULT_UNITS, **gen.temp_kw(298.0)))


def _build(case, r):
    n = case["ncomp"]
    fl = case["flavour"]
    comps = []
    if fl == "henry":
        comps = [("Henry", _params("Henry", r)) for _ in range(n)]
    elif fl == "langmuir-equal":
        nm = round(gen.log_uniform(r, 0.5, 10), 6)
        comps = [("Langmuir", {"K": round(gen.log_uniform(r, 0.05, 50), 6), "n_m": nm}) for _ in range(n)]
    elif fl == "trace-edges":
        # a strongly adsorbed component between two that end up as traces (x ~ 1e-6 ... 1e-9): hard for the solver
        n = 3
        comps = [("Langmuir", {"K": round(gen.log_uniform(r, 0.2, 3), 4), "n_m": round(r.uniform(0.2, 0.5), 4)}),
                 ("Langmuir", {"K": round(gen.log_uniform(r, 100, 600), 3), "n_m": round(r.uniform(3, 6), 4)}),
                 ("Langmuir", {"K": round(gen.log_uniform(r, 0.1, 0.6), 4), "n_m": round(r.uniform(0.2, 0.5), 4)})]
        isos = [_model_iso(nme, P, i) for i, (nme, P) in enumerate(comps)]
        return comps, isos, [round(gen.log_uniform(r, 0.01, 0.1), 5), round(r.uniform(8, 20), 4), round(r.uniform(8, 20), 4)]
    elif fl == "point":
        comps = [(nme, _params(nme, r)) for nme in [r.choice(["Langmuir", "DSLangmuir", "Toth"]) for _ in range(n)]]
    else:
        comps = [(nme, _params(nme, r)) for nme in [r.choice(MIX_MODELS) for _ in range(n)]]
        if case["seed"] % 5 == 2 and n >= 3:
            # a component whose spreading-pressure expression is also defined (and positive) at negative arguments comes last, where
            # its mole fraction is obtained by closure
            comps[-1] = ("Quadratic", _params("Quadratic", r))
    isos = [(_point_iso if fl == "point" else _model_iso)(nme, P, i) for i, (nme, P) in enumerate(comps)]
    # partial pressures over six decades: traces (1e-5) next to bulk components
    u = r.random()
    lo_p, hi_p = (1e-6, 1e-3) if u < 0.2 else (1e-5, 30) if u < 0.5 else (0.01, 30)  # (a fifth of the mixtures is dilute throughout: Henry regime)
    pp = [round(gen.log_uniform(r, lo_p, hi_p), 9) for _ in range(n)]
    if case["seed"] % 7 == 0 and n >= 2 and fl != "point":
        # a contaminant at the ppb level next to bulk components (its adsorbed mole fraction ends up below 1e-8); not in the last
        # position, whose mole fraction is obtained by closure
        pp = [round(gen.log_uniform(r, 0.3, 30), 6) for _ in range(n)]
        pp[r.randrange(n - 1)] = float("%.3g" % gen.log_uniform(r, 1e-12, 1e-9))
    return comps, isos, pp


def _independent_spreading(isos, p0):
    import pygaps
    from pgverif.checks import c11
    out = []
    for iso, q in zip(isos, p0):
        try:
            if isinstance(iso, pygaps.ModelIsotherm):
                out.append(c11._quad_lnp(iso.model.loading, 0, float(q))[0])
            else:
                ps, ls = iso.pressure(branch="ads"), iso.loading(branch="ads")
                out.append(c11._point_reference(list(map(float, ps)), list(map(float, ls)), float(q)) if float(q) <= float(ps.max()) else None)
        except Exception:
            out.append(None)
    return out


def _verify_result(ctx, key, isos, pp, loadings, info):
    """The IAST equations on a returned result. Returns True if they hold."""
    n = numpy.asarray(loadings, dtype=float)
    pp = numpy.asarray(pp, dtype=float)
    ok = True
    if n.shape != pp.shape or not numpy.all(numpy.isfinite(n)):
        ctx.violation(key + "/shape-or-nonfinite", "returned loadings have the wrong shape or are not finite", got=n, **info)
        return False
    nt = float(numpy.sum(n))
    x = n / nt
    if numpy.any(x < -1e-12) or numpy.any(x > 1 + 1e-12) or not close(float(numpy.sum(x)), 1.0, 1e-12):
        ctx.violation(key + "/mole-fractions", "adsorbed mole fractions are not in [0, 1] or do not sum to one", x=x, **info)
        return False
    if numpy.any(x <= 0):
        ctx.count("degenerate", "zero mole fraction")
        return True
    p0 = pp / x
    sps, n0 = [], []
    for iso, q in zip(isos, p0):
        a = _call(iso.spreading_pressure_at, float(q))
        b = _call(iso.loading_at, float(q))
        if a[0] != "ok" or b[0] != "ok":
            ctx.count("degenerate", "cannot re-evaluate pure isotherm at p/x")
            return True
        sps.append(float(numpy.asarray(a[1]).ravel()[0]))
        n0.append(float(numpy.asarray(b[1]).ravel()[0]))
    ctx.hook("iast_equations_verified")
    # the spreading pressures once more from an independent integration of each pure isotherm (quadrature of the model's loading
    # in ln p; closed-form integral of the piecewise-linear interpolant for measured data): the library's own
    # spreading_pressure_at is not its own judge
    ind = _independent_spreading(isos, p0)
    if ind is not None:
        ctx.count("independent_spreading", "compared")
        for s_lib, s_ind, iso in zip(sps, ind, isos):
            quad_based = hasattr(iso, "model") and iso.model.name in ("Toth", "JensenSeaton")  # (the library value is itself a quadrature)
            if s_ind is not None and abs(s_lib - s_ind) > (5e-6 if quad_based else 2e-6) * abs(s_ind) + 1e-10 * (1 + abs(s_ind)):
                if hasattr(iso, "model") and iso.model.name == "TemkinApprox" and close(s_lib - s_ind, iso.model.params["n_m"] * iso.model.params["tht"] / 2, 1e-6, 1e-9):
                    # the recorded C11 finding (constant offset n_m tht / 2 of the TemkinApprox antiderivative) as it shows in a mixture
                    ctx.violation("iast/TemkinApprox-component/spreading-pressure-offset=n_m*tht/2", "a TemkinApprox component enters the equal-spreading-pressure condition with a constant offset", library=s_lib,
                                  independent=s_ind, **info)
                    return False
                ctx.violation(key + "/spreading-pressure-not-the-integral", "the spreading pressure used for a pure component is not the integral of its loading over ln p", library=s_lib, independent=s_ind,
                              component=type(iso).__name__ + ":" + (iso.model.name if hasattr(iso, "model") else "points"), **info)
                return False
    scale = max(abs(s) for s in sps)
    # the solver works in the mole fractions (tolerance ~1.5e-8): d(Pi_i)/d(x_i) = -n_i0/x_i, so a tiny x_i makes
    # its spreading pressure extremely sensitive; the admissible residual follows that conditioning
    slack_x = 5e-8 * max(ni / xi for ni, xi in zip(n0, x))
    if max(sps) - min(sps) > 1e-6 * scale + slack_x + 1e-12:
        ctx.violation(key + "/spreading-pressures-unequal", "spreading pressures at the fictitious pressures p_i/x_i are not equal", spreading=sps, x=x, p0=p0, **info)
        ok = False
    if min(n0) <= 0:
        ctx.count("degenerate", "zero pure loading")
        return ok
    inv = sum(xi / ni for xi, ni in zip(x, n0))
    if not close(1.0 / nt, inv, 1e-9):
        ctx.violation(key + "/ideal-mixing-rule", "total loading does not obey 1/n_t = sum x_i / n_i0(p_i/x_i)", nt=nt, expected=1.0 / inv, x=x, **info)
        ok = False
    return ok


def _run_mixture(case, ctx):
    from pygaps.iast import pgiast
    r = gen.rng(case["seed"], "mix")
    comps, isos, pp = _build(case, r)
    from pgverif.core import _h
    dg = _h([comps, pp])
    info = {"components": comps, "partial_pressures": pp}
    fl = case["flavour"]
    # the caller's array must be left alone and a second call must answer the same
    arr = numpy.array(pp, dtype=float)
    keep = arr.copy()
    res = _call(pgiast.iast_point, isos, arr, warningoff=True)
    ctx.case(["iast_point", dg])
    if res[0] != "ok":
        # the property speaks about calculations that return: any refusal is outside it and only tabulated
        ctx.count("refusals", "iast_point/%s/%s" % (fl, type(res[1]).__name__))
        ctx.trivial += 1
        return
    ctx.count("returned", "iast_point/" + fl)
    n = numpy.asarray(res[1], dtype=float)
    if not numpy.array_equal(arr, keep):
        ctx.violation("iast_point/modifies-argument", "the caller's partial-pressure array was modified", before=keep, after=arr)
        arr = keep.copy()
    ok = _verify_result(ctx, "iast_point", isos, pp, n, info)
    res2 = _call(pgiast.iast_point, isos, arr, warningoff=True)
    ctx.case(["iast_point-repeat", dg])
    if res2[0] != "ok" or not numpy.allclose(res2[1], n, rtol=1e-10):
        ctx.violation("iast_point/second-call-differs", "the same call issued twice gives different results", first=n, second=res2[1])
    if not ok:
        return
    # closed forms
    if fl == "henry":
        exp = numpy.array([P["K"] * p for (_, P), p in zip(comps, pp)])
        ctx.case(["closed-form-henry", dg])
        if not numpy.allclose(n, exp, rtol=1e-6, atol=2e-7 * float(numpy.sum(exp))):  # (the solver stops at ~1.5e-8 in the mole fractions: absolute in x)
            ctx.violation("iast_point/closed-form/henry", "Henry mixture: loadings differ from K_i p_i", got=n, expected=exp, **info)
    if fl == "langmuir-equal":
        nm = comps[0][1]["n_m"]
        den = 1 + sum(P["K"] * p for (_, P), p in zip(comps, pp))
        exp = numpy.array([nm * P["K"] * p / den for (_, P), p in zip(comps, pp)])
        ctx.case(["closed-form-langmuir", dg])
        if not numpy.allclose(n, exp, rtol=1e-6, atol=2e-7 * float(numpy.sum(exp))):
            ctx.violation("iast_point/closed-form/extended-langmuir", "equal-capacity Langmuir mixture: loadings differ from the extended Langmuir equation", got=n, expected=exp, **info)
    # user starting guess
    guess = list(n / n.sum())
    rg = _call(pgiast.iast_point, isos, list(pp), warningoff=True, adsorbed_mole_fraction_guess=guess)
    ctx.case(["iast_point-guess", dg])
    if rg[0] == "ok":
        if not numpy.allclose(rg[1], n, rtol=1e-5):
            ctx.violation("iast_point/guess-dependent", "a starting guess at the solution gives a different result", got=rg[1], expected=n)
    else:
        ctx.count("refusals", "with-guess/" + type(rg[1]).__name__)
    # ... and a guess typed to four decimals (its sum may be 0.9999 or 1.0001: accepted by the library)
    rough = [round(float(g), 4) for g in guess]
    if min(rough) > 0:
        rq_ = _call(pgiast.iast_point, isos, list(pp), warningoff=True, adsorbed_mole_fraction_guess=rough)
        ctx.case(["iast_point-rough-guess", dg])
        ctx.count("rough_guess", "sum=%.4f" % sum(rough) if abs(sum(rough) - 1) > 1e-12 else "sum=1")
        if rq_[0] == "ok":
            if _verify_result(ctx, "iast_point[rough-guess]", isos, pp, numpy.asarray(rq_[1], dtype=float), dict(info, guess=rough)) and not numpy.allclose(rq_[1], n, rtol=1e-5):
                ctx.violation("iast_point/guess-dependent", "a starting guess typed to four decimals gives a different result", got=rq_[1], expected=n, guess=rough)
        else:
            ctx.count("refusals", "with-rough-guess/" + type(rq_[1]).__name__)
    # permutation invariance
    k = len(isos)
    perms = list(itertools.permutations(range(k)))[1:]
    for perm in (perms if k <= 3 else r.sample(perms, 4)):
        rp = _call(pgiast.iast_point, [isos[i] for i in perm], [pp[i] for i in perm], warningoff=True)
        ctx.case(["permutation", dg, perm])
        ctx.count("permutations", str(k))
        if rp[0] != "ok":
            ctx.count("refusals", "permuted/" + type(rp[1]).__name__)
            continue
        if not numpy.allclose(rp[1], n[list(perm)], rtol=1e-5, atol=1e-6 * float(n.sum())):
            ctx.violation("iast_point/permutation", "permuting the components does not permute the result", perm=perm, got=rp[1], expected=n[list(perm)], **info)
    # fraction helper == point calculation
    P = float(sum(pp))
    y = [p / P for p in pp]
    rf = _call(pgiast.iast_point_fraction, isos, y, P, warningoff=True)
    rq = _call(pgiast.iast_point, isos, numpy.asarray(y) * P, warningoff=True)
    ctx.case(["fraction-helper", dg])
    if rf[0] == "ok" and rq[0] == "ok":
        if not numpy.array_equal(numpy.asarray(rf[1]), numpy.asarray(rq[1])):
            ctx.violation("iast_point_fraction/differs-from-point", "the fraction helper does not return exactly what the point calculation gives", got=rf[1], expected=rq[1])
    elif (rf[0] == "ok") != (rq[0] == "ok"):
        ctx.violation("iast_point_fraction/outcome-differs", "the fraction helper and the point calculation disagree on refusing", a=rf[0], b=rq[0])
    # reverse IAST inverts the forward calculation
    x = n / n.sum()
    x[-1] = 1.0 - float(numpy.sum(x[:-1]))  # reverse_iast insists on a sum that is exactly 1.0
    if float(numpy.sum(x)) != 1.0 or min(x) < 1e-4:
        ctx.count("skipped", "reverse: fractions not exactly normalisable or a component is vanishing")
        return
    rr = _call(pgiast.reverse_iast, isos, list(x), P, warningoff=True)
    ctx.case(["reverse", dg])
    if rr[0] != "ok":
        ctx.count("refusals", "reverse_iast/" + type(rr[1]).__name__)
        return
    ctx.count("returned", "reverse_iast/" + str(k))
    yr, nr = numpy.asarray(rr[1][0], dtype=float), numpy.asarray(rr[1][1], dtype=float)
    if numpy.any(yr < -1e-12) or not close(float(yr.sum()), 1.0, 1e-9):
        ctx.violation("reverse_iast/gas-fractions", "returned gas fractions are negative or do not sum to one", y=yr)
        return
    if not _verify_result(ctx, "reverse_iast", isos, list(yr * P), nr, {"requested_x": x, "P": P, **info}):
        return
    if not numpy.allclose(nr / nr.sum(), x, rtol=1e-6, atol=1e-9):
        ctx.violation("reverse_iast/adsorbed-fractions", "returned loadings do not have the requested adsorbed mole fractions", got=nr / nr.sum(), expected=x)
    if not numpy.allclose(yr, y, rtol=1e-5, atol=1e-8):
        ctx.violation("reverse_iast/not-inverse-of-forward", "reverse IAST does not give back the gas phase of the forward calculation", got=yr, expected=y, **info)
    # a warm start (the answer of a neighbouring state point, or an earlier answer typed in with four digits) is a starting guess,
    # nothing more: the result is the solution
    g = numpy.round(numpy.asarray(y, dtype=float), 4)
    if g.min() > 0:
        g = g / g.sum()
        rw = _call(pgiast.reverse_iast, isos, list(x), P, warningoff=True, gas_mole_fraction_guess=list(g))
        ctx.case(["reverse-warm-start", dg])
        if rw[0] == "ok":
            ctx.count("returned", "reverse_iast/warm-start")
            yw = numpy.asarray(rw[1][0], dtype=float)
            if not numpy.allclose(yw, yr, rtol=1e-6, atol=1e-9):
                ctx.violation("reverse_iast/result-depends-on-starting-guess", "reverse IAST started from a rounded copy of the answer returns something else than from the default guess", warm=yw, default=yr,
                              guess=g, **info)
    if r.random() < 0.03:
        ctx.sample({"components": comps, "partial_pressures": pp, "loadings": n})


def _run_helpers(case, ctx):
    from pygaps.iast import pgiast
    r = gen.rng(case["seed"], "hlp")
    comps = [(nme, _params(nme, r)) for nme in [r.choice(["Langmuir", "DSLangmuir", "Toth", "Henry"]) for _ in range(2)]]
    isos = [_model_iso(nme, P, i) for i, (nme, P) in enumerate(comps)]
    y0 = round(r.uniform(0.1, 0.9), 2)
    fr = [y0, round(1 - y0, 2)]
    pressures = [round(gen.log_uniform(r, 0.05, 20), 4) for _ in range(4)]
    ptype = r.choice(["float-list", "float-list", "int-list", "int-array", "float-array"])
    if ptype.startswith("int"):
        pressures = sorted(r.sample(range(1, 25), 4))
    if ptype.endswith("array"):
        pressures = numpy.array(pressures)
    ctx.count("svp_pressure_types", ptype)
    sv = _call(pgiast.iast_binary_svp, isos, fr, pressures, warningoff=True)
    ctx.case(["svp", case["seed"]])
    if sv[0] == "ok":
        for P, s in zip(pressures, sv[1]["selectivity"]):
            pt = _call(pgiast.iast_point, isos, numpy.asarray(fr) * P, warningoff=True)
            ctx.count("helpers", "svp-points")
            if pt[0] == "ok":
                e = (pt[1][0] / fr[0]) / (pt[1][1] / fr[1])
                if not close(float(s), float(e), 1e-12):
                    ctx.violation("iast_binary_svp/selectivity", "selectivity differs from the point calculation", P=P, got=s, expected=e)
        if not numpy.array_equal(numpy.asarray(sv[1]["pressure"], dtype=float), numpy.asarray(pressures, dtype=float)):
            ctx.violation("iast_binary_svp/pressures", "returned pressures differ from the requested ones")
    else:
        ctx.count("refusals", "iast_binary_svp/" + type(sv[1]).__name__)
    P = round(gen.log_uniform(r, 0.1, 10), 3)
    vle = _call(pgiast.iast_binary_vle, isos, P, npoints=7, warningoff=True)
    ctx.case(["vle", case["seed"]])
    if vle[0] == "ok":
        ys = numpy.asarray(vle[1]["y"], dtype=float)
        xs = numpy.asarray(vle[1]["x"], dtype=float)
        if ys[0] != 0 or ys[-1] != 1 or xs[0] != 0 or xs[-1] != 1:
            ctx.violation("iast_binary_vle/end-points", "the curve does not start at (0,0) and end at (1,1)", x=xs, y=ys)
        for yv, xv in zip(ys[1:-1], xs[1:-1]):
            pt = _call(pgiast.iast_point_fraction, isos, [yv, 1 - yv], P, warningoff=True)
            ctx.count("helpers", "vle-points")
            if pt[0] == "ok" and not close(float(xv), float(pt[1][0] / (pt[1][0] + pt[1][1])), 1e-12):
                ctx.violation("iast_binary_vle/x", "adsorbed fraction differs from the point calculation", y=yv, got=xv)
    else:
        ctx.count("refusals", "iast_binary_vle/" + type(vle[1]).__name__)


def finalize(ctx):
    reasons = []
    if ctx.hooks.get("iast_equations_verified", 0) < 60:
        reasons.append("IAST equations verified on fewer than 60 returned results")
    ret = ctx.tables.get("returned", {})
    for fl in ("general", "henry", "langmuir-equal", "point"):
        if ret.get("iast_point/" + fl, 0) < 5:
            reasons.append("fewer than 5 returned results for %s mixtures" % fl)
    if sum(v for k, v in ret.items() if k.startswith("reverse_iast")) < 20:
        reasons.append("fewer than 20 returned reverse IAST results")
    if sum(ctx.tables.get("helpers", {}).values()) < 20:
        reasons.append("helper identities judged fewer than 20 times")
    for label, (hit, tot) in ctx.reach.items():
        if tot and not hit:
            reasons.append("anchored function %s never entered" % label)
    return reasons
