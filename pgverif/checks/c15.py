"""C15 — characterisation results do not depend on the units the isotherm is stored in.

Metamorphic twin monitor: the same characterisation call on an isotherm and on a
reconstructed copy that was first converted / scaled / exported and re-imported.
"""

import copy
import math
import os

import numpy

from pgverif import gen
from pgverif.core import close
from pgverif.core import repo_root
from pgverif.ref import units as RU

LEVEL = "exploration"
RULE = (
    "case = (characterisation entry point, source isotherm [shipped N2 samples, BAX-1500 isosteric set, synthetic isotherms at "
    "temperatures where p0 != 1 bar], transformation [pressure representation x non-fractional loading representation x "
    "temperature unit; JSON round trip; loading scale factor; reference isotherm converted independently]); evaluation = "
    "comparison of every numeric leaf of the two results; distinct = (entry point, source, transformation)"
)
ASSUMPTIONS = [
    "numeric leaves compared at relative 1e-6 (1e-3 for outputs of iterative optimisers: fitted DA exponent, HK widths, "
    "kernel fits); index windows must be identical",
    "a conversion that is itself refused is skipped (that is C02's domain); material basis/unit is not varied (results are "
    "reported per stored material unit)",
    "query points of alpha-s stay strictly inside the reference range (the reference spans a slightly wider range)",
]
NSHARDS = {"quick": 16, "thorough": 16}
TIMEOUT = {"quick": 280, "thorough": 3300}

DATA = os.path.join(repo_root(), "docs", "examples", "data")
N77 = ["MCM-41 N2 77.355.json", "NaY N2 77.355.json", "SiO2 N2 77.355.json", "Takeda 5A N2 77.355.json", "UiO-66(Zr) N2 77.355.json"]
ISOSTERIC = ["BAX 1500 - Isosteric Heat - 298.json", "BAX 1500 - Isosteric Heat - 323.json", "BAX 1500 - Isosteric Heat - 348.json"]

CHEAP = ["area_BET", "area_langmuir", "t_plot", "dr_plot", "da_plot", "initial_henry_slope", "initial_henry_virial"]
PSD = ["psd_meso:pygaps-DH", "psd_meso:BJH", "psd_meso:DH", "psd_micro:HK", "psd_micro:HK-CY", "psd_micro:RY", "psd_micro:RY-CY", "psd_dft"]
INTENSIVE = {"c_const", "p_monolayer", "corr_coef", "langmuir_const", "adsorption_potential", "exponent", "pore_widths", "limits", "p_limit_indices", "p_limits", "section", "bet_slope?", "isosteric_enthalpy",
             "correlation", "t_curve", "alpha_curve"}
EXTENSIVE = {"area", "n_monolayer", "pore_volume", "adsorbed_volume", "pore_volumes", "pore_areas", "pore_distribution", "pore_volume_cumulative", "pore_area_total", "kernel_loading"}


def anchors():
    from pygaps import characterisation as ch
    from pygaps.utilities import pygaps_utilities as pu
    return [("area_BET", ch.area_BET), ("area_langmuir", ch.area_langmuir), ("t_plot", ch.t_plot), ("alpha_s", ch.alpha_s), ("dr_plot", ch.dr_plot), ("da_plot", ch.da_plot),
            ("psd_mesoporous", ch.psd_mesoporous), ("psd_microporous", ch.psd_microporous), ("psd_dft", ch.psd_dft), ("initial_henry_slope", ch.initial_henry_slope),
            ("isosteric_enthalpy", ch.isosteric_enthalpy), ("get_iso_loading_and_pressure_ordered", pu.get_iso_loading_and_pressure_ordered)]


def gen_cases(tier, seed):
    r = gen.rng(seed, "c15")
    sources = [("n77", f) for f in N77] + [("synthetic", i) for i in range(9)]
    reps = 2 if tier == "quick" else 40
    for src in sources:
        for entry in CHEAP:
            for i in range(reps):
                yield {"kind": "twin", "entry": entry, "source": list(src), "seed": r.randrange(1 << 30)}
        for entry in PSD:
            for i in range(1 if tier == "quick" else 8):
                if tier == "quick" and r.random() < 0.5:
                    continue
                yield {"kind": "twin", "entry": entry, "source": list(src), "seed": r.randrange(1 << 30)}
    for i in range(30 if tier == "quick" else 400):
        yield {"kind": "alphas", "seed": r.randrange(1 << 30), "sample": N77[i % 5], "reference": N77[(i + 2) % 5]}
    for i in range(24 if tier == "quick" else 300):
        yield {"kind": "isosteric", "seed": r.randrange(1 << 30)}
    for i in range(6 if tier == "quick" else 60):
        yield {"kind": "isosteric_mixed", "seed": r.randrange(1 << 30)}
    for entry, src, force in (("area_BET", 4, [["absolute", "bar"], ["molar", "mmol"]]), ("t_plot", 4, [["absolute", "bar"], ["mass", "mg"]]), ("dr_plot", 4, [["absolute", "kPa"], ["molar", "mol"]]),
                              ("initial_henry_slope", 5, [["absolute", "MPa"], ["mass", "mg"]]), ("initial_henry_slope", 5, [["absolute", "bar"], ["molar", "cm3(STP)"]]),
                              ("initial_henry_slope", 5, [["absolute", "Pa"], ["mass", "g"]]), ("initial_henry_slope", 8, [["absolute", "Pa"], ["molar", "mmol"]]),
                              ("initial_henry_slope", 8, [["absolute", "kPa"], ["molar", "mol"]]), ("initial_henry_virial", 8, [["absolute", "Pa"], ["molar", "mmol"]])):
        yield {"kind": "twin", "entry": entry, "source": ["synthetic", src], "seed": r.randrange(1 << 30), "force": force}
    # integer-typed recordings in the very units a method reads, against the same data in another representation
    for entry in ("psd_meso:pygaps-DH", "psd_meso:BJH", "psd_meso:DH", "t_plot", "area_BET", "dr_plot"):
        for src in (6, 7):
            yield {"kind": "twin", "entry": entry, "source": ["synthetic", src], "seed": r.randrange(1 << 30), "force": [["relative", None], ["molar", "mmol"] if src == 6 else ["volume_liquid", "cm3"]]}
    # samples a hundred / a thousand times less (more) porous
    for k, entry in enumerate(("area_BET", "area_langmuir", "t_plot", "dr_plot", "psd_meso:BJH", "area_BET", "area_BET", "da_plot")):
        yield {"kind": "twin", "entry": entry, "source": ["n77", N77[k % 5]], "seed": r.randrange(1 << 30), "scale": [1e-3, 1e-4, 1e-2, 1e3, 1e-3, 1e-2, 1e2, 1e-3][k]}
    if tier == "thorough":
        # every pressure representation x every non-fractional loading representation, for the cheap methods
        for entry in ("area_BET", "t_plot", "dr_plot"):
            for pr in RU.PRESSURE_REPR:
                for lr in RU.LOADING_REPR[:25]:
                    yield {"kind": "twin", "entry": entry, "source": ["n77", N77[0]], "seed": r.randrange(1 << 30), "force": [list(pr), list(lr)]}


def run_case(case, ctx):
    ctx.count("case_kinds", case["kind"])
    globals()["_run_" + case["kind"]](case, ctx)


def _call(fn, *a, **k):
    try:
        with numpy.errstate(all="ignore"):
            return ("ok", fn(*a, **k))
    except Exception as exc:
        return ("exc", exc)


_CACHE = {}


def _load(name, folder="characterisation"):
    from pygaps.parsing.json import isotherm_from_json
    key = (folder, name)
    if key not in _CACHE:
        _CACHE[key] = isotherm_from_json(os.path.join(DATA, folder, name))
    return gen.copy_point(_CACHE[key])


def _synthetic(i):
    """Type II/IV-like isotherms at temperatures where p0 is far from 1 bar (so that bar and relative pressure differ)."""
    import pygaps
    ads, T = [("nitrogen", 70.0), ("nitrogen", 90.0), ("argon", 100.0), ("verif-c15-vapour", 300.0), ("nitrogen", 77.355), ("nitrogen", 77.355), ("nitrogen", 77.355), ("nitrogen", 77.355), ("nitrogen", 77.355)][i]
    if i == 3:
        # a user-defined vapour without thermodynamic backend: everything comes from the properties the user supplied
        # (saturation pressure in Pa, densities in g/cm3, surface tension in mN/m, as documented)
        pygaps.Adsorbate("verif-c15-vapour", store=True, formula="X", molar_mass=72.15, saturation_pressure=68300.0, liquid_density=0.626, surface_tension=15.5, cross_sectional_area=0.45,
                         gas_density=0.00205, enthalpy_liquefaction=26.4, molecular_diameter=0.45, polarizability=0.001, magnetic_susceptibility=1.0e-7, surface_density=5.0e18)
    p = numpy.concatenate([numpy.exp(numpy.linspace(math.log(1e-6), math.log(0.05), 25)), numpy.linspace(0.06, 0.97, 45)])
    n = 4.0 * 80 * p / ((1 - 0.85 * p) * (1 - 0.85 * p + 80 * p)) + 2.0 * p / (0.002 + p) + 6 / (1 + numpy.exp(-(p - 0.55) / 0.03))
    if i == 4:
        # recorded directly in percent of the saturation pressure
        return pygaps.PointIsotherm(pressure=list(p * 100), loading=list(n), branch="ads", material="verif-c15-4", adsorbate=ads, temperature=T, pressure_mode="relative%",
                                    **{k: v for k, v in gen.DEFAULT_UNITS.items() if not k.startswith("pressure")})
    if i == 8:
        # a recording that starts at a few percent of saturation, its first reading showing no uptake yet (zero loading at a
        # pressure above zero - in Pa a number larger than any loading of the series)
        p, n = p[25:], n[25:].copy()
        n[0] = 0.0
    if i in (6, 7):
        # as an instrument writes it: whole numbers (an integer column), in the units it works in - liquid volume per kg of sample
        # (the unit the pore-volume methods read themselves), or cm3(STP) per g
        p = p[20:]
        n = n[20:]
        if i == 6:
            vals, lkw = numpy.rint(n * 34.7).astype(numpy.int64), dict(loading_basis="volume_liquid", loading_unit="cm3", material_basis="mass", material_unit="kg")
        else:
            vals, lkw = numpy.rint(n * 22.414).astype(numpy.int64), dict(loading_basis="molar", loading_unit="cm3(STP)", material_basis="mass", material_unit="g")
        return pygaps.PointIsotherm(pressure=p, loading=vals, branch="ads", material="verif-c15-%d" % i, adsorbate=ads, temperature=T, pressure_mode="relative", pressure_unit=None, temperature_unit="K", **lkw)
    if i == 5:
        # a high-affinity (type I) sample: Henry constants of 1e6 mmol/g/bar and more
        p = numpy.concatenate([numpy.exp(numpy.linspace(math.log(1e-13), math.log(1e-7), 30)), p])
        n = 8.0 * 2.0e8 * p / (1 + 2.0e8 * p) + 0.5 * p
    return pygaps.PointIsotherm(pressure=list(p), loading=list(n), branch="ads", material="verif-c15-%d" % i, adsorbate=ads, temperature=T, pressure_mode="relative", pressure_unit=None,
                                **{k: v for k, v in gen.DEFAULT_UNITS.items() if not k.startswith("pressure")})


def _source(src):
    return _load(src[1]) if src[0] == "n77" else _synthetic(src[1])


def _run_entry(entry, iso):
    from pygaps import characterisation as ch
    if entry == "area_BET":
        return ch.area_BET(iso)
    if entry == "area_langmuir":
        return ch.area_langmuir(iso, p_limits=(0.02, 0.4))
    if entry == "t_plot":
        return ch.t_plot(iso, thickness_model="Halsey", t_limits=(0.35, 0.65))
    if entry == "dr_plot":
        return ch.dr_plot(iso, p_limits=(None, 0.1))
    if entry == "da_plot":
        return ch.da_plot(iso, exp=None, p_limits=(None, 0.1))
    if entry == "initial_henry_slope":
        return {"K": ch.initial_henry_slope(iso, max_adjrms=0.01)}
    if entry == "initial_henry_virial":
        return {"K": ch.initial_henry_virial(iso)}
    if entry.startswith("psd_meso:"):
        # (the method's default is the desorption branch; the synthetic recordings have an adsorption branch only)
        return ch.psd_mesoporous(iso, psd_model=entry.split(":")[1], pore_geometry="cylinder", branch="des" if iso.has_branch("des") else "ads")
    if entry.startswith("psd_micro:"):
        return ch.psd_microporous(iso, psd_model=entry.split(":")[1], pore_geometry="slit")
    if entry == "psd_dft":
        return ch.psd_dft(iso)
    raise KeyError(entry)


def _leaves(obj, path=""):
    """(path, value) for every numeric leaf / array of a result."""
    out = []
    if isinstance(obj, dict):
        for k, v in obj.items():
            out += _leaves(v, path + "/" + str(k))
    elif isinstance(obj, (list, tuple)) and obj and isinstance(obj[0], dict):
        for i, v in enumerate(obj):
            out += _leaves(v, path + "[%d]" % i)
    elif isinstance(obj, (list, tuple, numpy.ndarray)):
        try:
            out.append((path, numpy.asarray(obj, dtype=float)))
        except (TypeError, ValueError):
            pass
    elif isinstance(obj, (int, float, numpy.floating, numpy.integer)) and not isinstance(obj, bool):
        out.append((path, numpy.asarray(float(obj))))
    return out


def _compare(ctx, key, a, b, rt, scale=None, info=None):
    """Numeric leaves of two results must agree (after scaling extensive leaves by `scale`)."""
    la, lb = dict(_leaves(a)), dict(_leaves(b))
    info = info or {}
    if set(la) != set(lb):
        ctx.violation(key + "/result-structure", "the two results have different entries", only_a=sorted(set(la) - set(lb))[:5], only_b=sorted(set(lb) - set(la))[:5], **info)
        return False
    for path in sorted(la):
        x, y = la[path], lb[path]
        leaf = path.rsplit("/", 1)[-1].split("[")[0]
        f = 1.0
        if scale is not None and leaf in EXTENSIVE:
            f = scale
        if scale is not None and leaf in ("slope", "intercept", "bet_slope", "bet_intercept", "langmuir_slope", "langmuir_intercept", "K"):
            continue  # depend on the scale in a method specific way; the derived quantities are compared
        if x.shape != y.shape:
            ctx.violation(key + "/result-shape", "a result array has a different length", leaf=path, shapes=[list(x.shape), list(y.shape)], **info)
            return False
        tol = rt
        ok = numpy.all((x * f == y) | (numpy.abs(x * f - y) <= tol * numpy.maximum(numpy.abs(x * f), numpy.abs(y)) + 1e-300) | (numpy.isnan(x) & numpy.isnan(y)))
        if not ok:
            bad = int(numpy.argmax(numpy.abs(numpy.nan_to_num(x * f - y)))) if x.ndim else 0
            ctx.violation(key + "/" + leaf, "a characterisation result changes with the stored representation", leaf=path, a=float(x.ravel()[bad]) if x.size else None, b=float(y.ravel()[bad]) if y.size else None,
                          expected_factor=f, **info)
            return False
    return True


def _rt(entry):
    if entry.startswith("psd_micro") or entry in ("da_plot", "psd_dft", "initial_henry_virial"):
        return 2e-3
    if entry == "initial_henry_slope":
        return 1e-6
    return 1e-6


_INPLACE = [0]


def _warm(iso):
    try:
        iso.loading_at(float(numpy.median(iso.pressure(branch="ads"))))
        iso.pressure_at(float(numpy.median(iso.loading(branch="ads"))))
    except Exception:
        pass


def _transform(r, iso, force=None):
    """Convert a copy to another representation. Returns (copy or None, description).

    Every other copy has been queried before it is converted (its interpolators exist), as the isotherm of a user who
    analyses, converts and analyses again would be."""
    _INPLACE[0] += 1
    cp = gen.copy_point(iso)
    if _INPLACE[0] % 2 == 0:
        _warm(cp)
    pr = tuple(force[0]) if force else r.choice(RU.PRESSURE_REPR)
    lr = tuple(force[1]) if force else r.choice(RU.LOADING_REPR[:25])
    tu = r.choice(["K", "°C"])
    try:
        cp.convert_pressure(mode_to=pr[0], unit_to=pr[1])
        cp.convert_loading(basis_to=lr[0], unit_to=lr[1])
        cp.convert_temperature(tu)
    except Exception as exc:
        return None, {"pressure": pr, "loading": lr, "temperature_unit": tu, "refused": repr(exc)[:120]}
    return cp, {"pressure": pr, "loading": lr, "temperature_unit": tu}


def _run_twin(case, ctx):
    from pygaps.parsing.json import isotherm_from_json
    r = gen.rng(case["seed"], "tw")
    entry = case["entry"]
    base = _source(case["source"])
    if entry.startswith("initial_henry") and case["source"][0] == "n77":
        pass
    ra = _call(_run_entry, entry, base)
    if ra[0] != "ok":
        ctx.count("skipped", "%s refused on the source isotherm (%s)" % (entry, type(ra[1]).__name__))
        ctx.trivial += 1
        return
    how = "convert" if case.get("force") else "scale" if case.get("scale") else r.choice(["convert", "convert", "convert", "json", "scale"])
    info = {"entry": entry, "source": case["source"]}
    scale = None
    if how == "convert":
        twin, desc = _transform(r, base, case.get("force"))
        info["transformation"] = desc
        if twin is None:
            ctx.count("skipped", "conversion refused")
            ctx.trivial += 1
            return
        if r.random() < 0.4:
            # ... and exported and re-imported in that representation
            twin = isotherm_from_json(twin.to_json())
            info["transformation"] = dict(desc, then="json round trip")
            how = "convert+json"
    elif how == "json":
        twin = isotherm_from_json(base.to_json())
        info["transformation"] = "json round trip"
    else:
        # (any positive factor: a sample a thousand times less / more porous is the same analysis)
        scale = case.get("scale") or (round(gen.log_uniform(r, 0.2, 5.0), 4) if r.random() < 0.5 else r.choice([1e-4, 1e-3, 1e-2, 1e2, 1e3]))
        twin = gen.copy_point(base)
        twin.data_raw[twin.loading_key] = twin.data_raw[twin.loading_key] * scale
        info["transformation"] = "loading x %s" % scale
    rb = _call(_run_entry, entry, twin)
    from pgverif.core import _h
    ctx.case([entry, case["source"], _h(info["transformation"])])
    ctx.count("twins", "%s/%s" % (entry, how))
    key = entry
    if rb[0] != "ok":
        ctx.violation(key + "/raises-after-%s/%s" % (how, type(rb[1]).__name__), "the analysis succeeds on the isotherm but raises on its transformed copy", exc=rb[1], **info)
        return
    rt = _rt(entry)
    if entry.startswith("initial_henry") and how.startswith("convert"):
        # reported in the isotherm's own units: changes by exactly the unit factors
        if str(base.adsorbate) == "verif-c15-vapour":
            fl = RU.UserFluid(72.15, 68300.0, 0.626, 0.00205)
        else:
            fl = RU.fluid(gen.backend_of(str(base.adsorbate)))
        T = base.temperature
        try:
            fp = RU.pressure_factor(base.pressure_mode, base.pressure_unit, twin.pressure_mode, twin.pressure_unit, fl, T)
            fn = RU.loading_factor(base.loading_basis, base.loading_unit, twin.loading_basis, twin.loading_unit, fl, T, "mass", "g")
        except Exception:
            ctx.count("reference_unavailable", entry)
            return
        ka, kb = float(ra[1]["K"]), float(rb[1]["K"])
        rtk = max(rt, RU.rtol_for(base.pressure_unit, twin.pressure_unit, base.loading_unit, twin.loading_unit) * 3)
        if not close(kb, ka * fn / fp, rtk):
            ratio = kb / (ka * fn / fp) if ka else float("inf")
            # an optimiser-quality deviation (the fit stops early / elsewhere in some unit sets: within a factor 10) is
            # told apart from a missing or wrong unit factor (orders of magnitude)
            lim = 1e12 if entry == "initial_henry_virial" else 10  # (the Virial polynomial in raw loading units has no usable bound)
            sub = "optimiser-dependent-on-data-scale" if 1.0 / lim < ratio < lim else "gross"
            if entry == "initial_henry_slope" and sub != "gross" and case["source"][0] == "synthetic" and case["source"][1] not in (5, ):
                # the recorded optimiser-quality deviations were observed on measured isotherms and on the high-affinity sample
                # (sub-fits that stall at their start); on the smooth synthetic recordings every sub-fit converges and a deviation
                # of the same size is not that mechanism
                sub = "deviation-on-a-smooth-synthetic-recording"
            ctx.violation("%s/unit-factor/%s" % (key, sub), "the Henry constant does not change by exactly the unit factors", a=ka, b=kb, expected=ka * fn / fp, ratio=ratio, **info)
        return
    if entry.startswith("initial_henry") and how == "scale":
        if not close(float(rb[1]["K"]), float(ra[1]["K"]) * scale, max(rt, 1e-6)):
            ratio = float(rb[1]["K"]) / (float(ra[1]["K"]) * scale) if float(ra[1]["K"]) else float("inf")
            # factors of 100 and more (or 0.01 and less) change the magnitude of the numbers the optimiser works on: an
            # optimiser-quality deviation there (within a factor 10) is told apart from a missing factor (>= 100) - ordinary
            # factors are judged strictly
            # (the Virial polynomial in raw loading numbers reacts to any change of their magnitude, whatever unit they started in)
            if entry == "initial_henry_virial":
                sub = "/optimiser-dependent-on-data-scale" if 0.1 < ratio < 10 else ""
            else:
                sub = "/large-factor/optimiser-dependent-on-data-scale" if (scale >= 100 or scale <= 0.01) and 0.1 < ratio < 10 else ""
            ctx.violation(key + "/scale" + sub, "the Henry constant does not scale with the loading", a=ra[1]["K"], b=rb[1]["K"], scale=scale, ratio=ratio, **info)
        return
    if how == "scale" and entry.startswith("psd_micro:") and entry.endswith("CY"):
        pass  # the Cheng-Yang correction uses the coverage n / max(n): invariant
    _compare(ctx, key, ra[1], rb[1], rt, scale=scale, info=info)
    if r.random() < 0.03:
        ctx.sample(info)


def _run_alphas(case, ctx):
    """The reference isotherm is converted independently of the sample."""
    from pygaps import characterisation as ch
    r = gen.rng(case["seed"], "al")
    sample, ref = _load(case["sample"]), _load(case["reference"])
    kw = dict(reference_area="BET", t_limits=(0.3, 1.2), reducing_pressure=0.4)
    # keep the sample's pressures strictly inside the reference range
    lo, hi = ref.pressure(branch="ads").min(), ref.pressure(branch="ads").max()
    d = sample.data_raw
    sample.data_raw = d.loc[(d[sample.pressure_key] > lo * 1.05) & (d[sample.pressure_key] < hi * 0.95)].reset_index(drop=True)
    ra = _call(ch.alpha_s, sample, reference_isotherm=ref, **kw)
    if ra[0] != "ok" or not ra[1]["results"]:
        ctx.count("skipped", "alpha_s refused on the source pair")
        ctx.trivial += 1
        return
    which = r.choice(["sample", "reference", "both"])
    if case["seed"] % 3 == 0:
        which = "reference-material-unit-only"
    s2, dsc = (sample, None)
    r2, drf = (ref, None)
    if which in ("sample", "both"):
        s2, dsc = _transform(r, sample)
    if which in ("reference", "both"):
        r2, drf = _transform(r, ref)
    if s2 is None or r2 is None:
        ctx.count("skipped", "conversion refused")
        ctx.trivial += 1
        return
    if case["seed"] % 3 == 0:
        # the reference expressed per another amount of reference material (its loadings and its own area change together:
        # nothing changes for the sample)
        if r2 is ref:
            r2 = gen.copy_point(ref)
        try:
            mu = r.choice(["kg", "mg"])
            r2.convert_material(basis_to="mass", unit_to=mu)
            drf = dict(drf or {}, reference_material_unit=mu)
            ctx.count("twins", "alpha_s/reference-per-other-material-unit")
        except Exception:
            pass
    rb = _call(ch.alpha_s, s2, reference_isotherm=r2, **kw)
    info = {"sample": case["sample"], "reference": case["reference"], "converted": which, "sample_repr": dsc, "reference_repr": drf}
    from pgverif.core import _h
    ctx.case(["alpha_s", case["sample"], case["reference"], _h([dsc, drf])])
    ctx.count("twins", "alpha_s/%s" % which)
    # mechanism classification (see DESIGN.md): alpha_s reads the reference at the sample's *relative* pressures but
    # passes them with pressure_unit=<sample's unit> and no mode, and asks for 'mmol' without naming the molar basis
    ref_mode, ref_basis = r2.pressure_mode, r2.loading_basis
    mech = None
    # (the recorded mechanisms act through the reference's stored pressure representation together with the *sample's* pressure
    # unit, and through the reference's loading basis: where none of these differs between the two runs they act identically in
    # both and explain no difference)
    lookup_a = (ref.pressure_mode, ref.pressure_unit, sample.pressure_unit)
    lookup_b = (r2.pressure_mode, r2.pressure_unit, s2.pressure_unit)
    if lookup_a != lookup_b and (ref_mode != "relative" or ref.pressure_mode != "relative"):
        # (the result on the original pair is itself affected when the original reference is stored in absolute pressure)
        mech = "alpha_s/reference-not-stored-in-relative-pressure/read-at-wrong-pressures"
    elif ref_basis != ref.loading_basis and (ref_basis != "molar" or ref.loading_basis != "molar"):
        mech = "alpha_s/reference-not-stored-on-molar-basis/mmol-requested-without-basis"
    if rb[0] != "ok":
        ctx.violation(mech or "alpha_s/raises-after-convert/%s" % type(rb[1]).__name__, "alpha-s succeeds on the pair but raises after a unit conversion", exc=rb[1], **info)
        return
    before = len(ctx.violations)
    tmp_key = "alpha_s"
    ok = _compare(ctx, tmp_key, {"results": ra[1]["results"], "alpha_curve": ra[1]["alpha_curve"]}, {"results": rb[1]["results"], "alpha_curve": rb[1]["alpha_curve"]}, 1e-6, info=info)
    if not ok and mech:
        # re-key the violation just recorded to the mechanism
        for k in [k for k in list(ctx.violations) if k.startswith("alpha_s/") and k not in (mech, )]:
            v = ctx.violations.pop(k)
            tgt = ctx.violations.setdefault(mech, {"count": 0, "what": v["what"], "witnesses": []})
            tgt["count"] += v["count"]
            tgt["witnesses"] = (tgt["witnesses"] + v["witnesses"])[:2]


def _run_isosteric(case, ctx):
    from pygaps import characterisation as ch
    r = gen.rng(case["seed"], "is")
    isos = [_load(f, "isosteric") for f in ISOSTERIC]
    ra = _call(ch.isosteric_enthalpy, isos)
    if ra[0] != "ok":
        ctx.count("skipped", "isosteric refused on the source set")
        return
    lp = list(numpy.asarray(ra[1]["loading"], dtype=float)[5:45:5])
    ra = _call(ch.isosteric_enthalpy, isos, loading_points=lp)
    pr = r.choice(RU.PRESSURE_REPR)  # any representation, relative ones included: the enthalpy is defined on absolute pressures
    only_one = r.random() < 0.35  # ... and sometimes only one isotherm of the set is converted
    pick = r.randrange(len(isos))
    lr = r.choice([("molar", "mol"), ("molar", "cm3(STP)"), ("mass", "g"), ("mass", "mg"), ("molar", "mmol"), ("volume_gas", "cm3"), ("volume_liquid", "cm3")])
    tu = r.choice(["K", "°C"])
    twins = []
    for k, iso in enumerate(isos):
        cp = gen.copy_point(iso)
        if case["seed"] % 2 == 0:
            _warm(cp)  # (even seeds: the copy has been queried before it is converted)
        try:
            if not only_one or k == pick:
                cp.convert_pressure(mode_to=pr[0], unit_to=pr[1])
            cp.convert_loading(basis_to=lr[0], unit_to=lr[1])
            cp.convert_temperature(tu)
        except Exception:
            ctx.count("skipped", "conversion refused")
            return
        twins.append(cp)
    fl = RU.fluid(gen.backend_of(str(isos[0].adsorbate)))
    fn = RU.loading_factor(isos[0].loading_basis, isos[0].loading_unit, lr[0], lr[1], fl, isos[0].temperature, "mass", "g")
    rb = _call(ch.isosteric_enthalpy, twins, loading_points=[x * fn for x in lp])
    info = {"pressure": pr, "loading": lr, "temperature_unit": tu, "pressure_converted_on": "one isotherm of the set" if only_one else "all"}
    from pgverif.core import _h
    ctx.case(["isosteric", _h(info)])
    ctx.count("twins", "isosteric_enthalpy/convert")
    # mechanism: on a loading basis that depends on temperature (volume of gas / of liquid at the isotherm's own temperature) the
    # function still takes its isosteres at equal *numbers*, i.e. at different adsorbed amounts for each isotherm
    tdep = lr[0] in ("volume_gas", "volume_liquid")
    if rb[0] != "ok":
        ctx.violation("isosteric_enthalpy/temperature-dependent-loading-basis/isosteres-not-at-constant-amount" if tdep else "isosteric_enthalpy/raises-after-convert/%s" % type(rb[1]).__name__,
                      "isosteric analysis raises after a common unit conversion", exc=rb[1], **info)
        return
    a, b = numpy.asarray(ra[1]["isosteric_enthalpy"], dtype=float), numpy.asarray(rb[1]["isosteric_enthalpy"], dtype=float)
    rt = max(1e-6, RU.rtol_for(lr[1]) * 50)  # the query loadings carry the rounding of the STP constant, amplified by the isotherm slope
    if a.shape != b.shape or not numpy.allclose(a, b, rtol=rt, atol=0):
        ctx.violation("isosteric_enthalpy/temperature-dependent-loading-basis/isosteres-not-at-constant-amount" if tdep else "isosteric_enthalpy/changes-with-units",
                      "the isosteric enthalpy changes when all isotherms are expressed in other common units", a=a[:4], b=b[:4], **info)


def _run_isosteric_mixed(case, ctx):
    """A set in which one isotherm (not the first) is stored in another molar loading unit, analysed on the automatic loading grid:
    the grid and the result are those of the set in common units."""
    from pygaps import characterisation as ch
    r = gen.rng(case["seed"], "ism")
    isos = [_load(f, "isosteric") for f in ISOSTERIC]
    ra = _call(ch.isosteric_enthalpy, isos)
    if ra[0] != "ok":
        ctx.count("skipped", "isosteric refused on the source set")
        return
    twins = [gen.copy_point(i) for i in isos]
    k = r.randrange(1, len(twins))
    unit = r.choice(["mol", "cm3(STP)"])
    try:
        twins[k].convert_loading(basis_to="molar", unit_to=unit)
    except Exception:
        ctx.count("skipped", "conversion refused")
        return
    rb = _call(ch.isosteric_enthalpy, twins)
    ctx.case(["isosteric-mixed-loading-units", k, unit])
    ctx.count("twins", "isosteric_enthalpy/one-isotherm-in-another-loading-unit")
    if rb[0] != "ok":
        ctx.violation("isosteric_enthalpy/raises-with-mixed-loading-units/%s" % type(rb[1]).__name__, "the analysis of a set succeeds but raises when one isotherm is stored in another loading unit", exc=rb[1], which=k, unit=unit)
        return
    rt = max(1e-6, RU.rtol_for(unit) * 50)
    for fld in ("loading", "isosteric_enthalpy"):
        a, b = numpy.asarray(ra[1][fld], dtype=float), numpy.asarray(rb[1][fld], dtype=float)
        if a.shape != b.shape or not numpy.allclose(a, b, rtol=rt, atol=0):
            ctx.violation("isosteric_enthalpy/changes-with-mixed-loading-units/%s" % fld, "the automatic loading grid / the enthalpy changes when one isotherm of the set is stored in another loading unit", a=a[:4], b=b[:4],
                          which=k, unit=unit)
            return


def finalize(ctx):
    reasons = []
    tw = ctx.tables.get("twins", {})
    entries = {k.split("/")[0] for k in tw}
    for e in CHEAP + ["alpha_s", "isosteric_enthalpy"]:
        if e not in entries:
            reasons.append("entry point %s never compared" % e)
    if len([e for e in entries if e.startswith("psd_")]) < 5:
        reasons.append("fewer than 5 PSD entry points compared")
    if sum(tw.values()) < 60:
        reasons.append("fewer than 60 twin comparisons")
    for label, (hit, tot) in ctx.reach.items():
        if tot and not hit:
            reasons.append("anchored function %s never entered" % label)
    return reasons
