"""C10 — isotherm model equations are mutually inverse, monotonic and physically bounded.

Postcondition monitor on model.loading / model.pressure of the 16 real model classes and on
ModelIsotherm.loading_at / pressure_at.
"""

import math
import random

import numpy

from pgverif import gen
from pgverif import models as GM
from pgverif.core import close
from pgverif.core import rel_err
from pgverif.ref import units as RU

LEVEL = "exploration"
RULE = (
    "case = (model, parameter vector inside the declared bounds [monotone region for the monotonicity clause], "
    "sample of pressures/loadings inside the validity window); evaluations = oracle comparisons (inverse law per "
    "point, shape facts per grid, scalar/array agreement per input kind, ModelIsotherm conversions per query); "
    "distinct = (model, parameter digest, clause); a comparison is trivial when the library refused (CalculationError "
    "from a numerical inverse) before the oracle could judge"
)
ASSUMPTIONS = [
    "published model equations (pgverif.models.reference_*) define the models; validity windows: below the BET/GAB pole "
    "(2 % margin), coverage <= 0.98, p <= 1 for DR/DA, before the first turning point for Virial/VST",
    "closed-form inverses accepted on forward error <= 1e-8/(1-theta) OR backward residual <= 1e-10; numerical inverses at 1e-5 "
    "and only when the library reports success",
]
NSHARDS = {"quick": 16, "thorough": 16}
TIMEOUT = {"quick": 240, "thorough": 2400}


def anchors():
    from pygaps.core.modelisotherm import ModelIsotherm
    from pygaps.modelling import get_isotherm_model
    out = []
    for n in GM.MODEL_NAMES:
        m = get_isotherm_model(n)
        out.append((n + ".loading", type(m).loading))
        out.append((n + ".pressure", type(m).pressure))
    out.append(("ModelIsotherm.loading_at", ModelIsotherm.loading_at))
    out.append(("ModelIsotherm.pressure_at", ModelIsotherm.pressure_at))
    return out


def gen_cases(tier, seed):
    r = gen.rng(seed, "c10")
    per = 40 if tier == "quick" else 2500
    slow = {"Virial": 6, "FHVST": 10, "WVST": 10, "TSLangmuir": 20, "TemkinApprox": 20, "JensenSeaton": 20}
    for name in GM.MODEL_NAMES:
        n = per if tier == "thorough" else min(per, slow.get(name, per))
        if tier == "thorough" and name in slow:
            n = per // (8 if name == "Virial" else 3)
        for i in range(n):
            yield {"kind": "model", "model": name, "seed": r.randrange(1 << 30), "typed": i % 7 == 0, "nonmonotone": i % 11 == 5}
    for i in range(48 if tier == "quick" else 3000):
        yield {"kind": "modeliso", "model": GM.MODEL_NAMES[i % len(GM.MODEL_NAMES)], "seed": r.randrange(1 << 30)}


def run_case(case, ctx):
    ctx.count("case_kinds", case["kind"])
    globals()["_run_" + case["kind"]](case, ctx)


def _is_calc_error(exc):
    from pygaps.utilities.exceptions import CalculationError
    return isinstance(exc, CalculationError)


def _call(fn, *a):
    try:
        with numpy.errstate(all="ignore"):
            return ("ok", fn(*a))
    except Exception as exc:
        return ("exc", exc)


def _scalar(x):
    a = numpy.asarray(x, dtype=float)
    if a.size != 1:
        raise ValueError("not scalar-like: %r" % (x, ))
    return float(a.reshape(-1)[0])


def _digest(P):
    from pgverif.core import _h
    return _h(P)


def _run_model(case, ctx):
    name = case["model"]
    r = gen.rng(case["seed"], "m")
    monotone = not case.get("nonmonotone")
    P = GM.random_params(name, r, typed=case.get("typed"), monotone=monotone)
    easy = False
    if name == "Quadratic" and monotone and case["seed"] % 4 == 0:
        # a parameter on the boundary of its physical range: no first-order term (still increasing for Kb > 0)
        P = dict(P, Ka=0.0)
        ctx.count("model_objects", "Quadratic/Ka=0")
    if name == "DSLangmuir" and case["seed"] % 4 == 1:
        # round parameters as a user types them: two equal sites, or sites in a simple ratio (exact cancellations can occur)
        P = r.choice([{"n_m1": 2.0, "K1": 4.0, "n_m2": 2.0, "K2": 4.0}, {"n_m1": 2.0, "K1": 1.0, "n_m2": 2.0, "K2": 3.0}, {"n_m1": 1.0, "K1": 0.5, "n_m2": 3.0, "K2": 0.5}])
        ctx.count("model_objects", "DSLangmuir/round-parameters")
    if name == "Virial" and case["seed"] % 2 == 0:
        # well-conditioned subset on which the Nelder-Mead inverse (started at n0 = p, absolute tolerances 1e-4)
        # is expected to work: p ~ n ~ O(1..10), monotone p(n); judged without any known-finding escape
        easy = True
        P = {"K": round(r.uniform(0.7, 1.5), 6), "A": round(r.uniform(0.0, 0.02), 6), "B": round(r.uniform(0.0, 0.002), 6), "C": round(r.uniform(0.0, 0.0002), 6)}
    T = 77.355
    try:
        m = GM.make_model(name, P, temperature=T)
    except Exception as exc:
        ctx.violation("%s/construct" % name, "model cannot be built from parameters in bounds", P=P, exc=exc)
        return
    if case["seed"] % 4 == 2 and len(m.params) > 1:
        # the parameter dictionary as the user wrote it down: same names, another order of the keys
        m.params = dict(reversed(list(m.params.items())))
        ctx.count("model_objects", name + "/parameter-dictionary-in-another-key-order")
    dg = _digest(P)
    # another instance of the same model class (other parameters) is evaluated first, at fixed arguments: instances share nothing
    try:
        other = GM.make_model(name, GM.random_params(name, gen.rng(case["seed"], "other"), typed=False), temperature=T)
        for x in (0.01, 0.1, 0.5, 1.0):
            _call(other.loading, x)
            _call(other.pressure, x)
            if hasattr(other, "spreading_pressure"):
                _call(other.spreading_pressure, x)
    except Exception:
        pass
    if case["seed"] % 3 == 0:
        # a parameter sweep (or a second fit) re-uses one model object: it was evaluated with other parameters before it got these
        try:
            reused = GM.make_model(name, GM.random_params(name, gen.rng(case["seed"], "reuse"), typed=False, monotone=monotone), temperature=T)
            for x in (0.02, 0.3, 1.0):
                _call(reused.loading, x)
                _call(reused.pressure, x)
                if hasattr(reused, "spreading_pressure"):
                    _call(reused.spreading_pressure, x)
            for k_ in list(reused.params):
                reused.params[k_] = m.params[k_]
            m = reused
            ctx.count("model_objects", name + "/re-used-after-evaluation-with-other-parameters")
        except Exception as exc:
            ctx.count("skipped", name + "/reuse-unavailable")
    else:
        ctx.count("model_objects", name + "/fresh")
    explicit_p = name in GM.PRESSURE_EXPLICIT
    numeric = name in GM.NUMERIC_INVERSE
    mono_ok = GM.is_monotone(name, P)
    if explicit_p:
        xs = GM.sample_loadings(name, P, r, 12) if not easy else sorted(round(r.uniform(1.0, 10.0), 6) for _ in range(12))
        forward, inverse, ref_fwd = m.pressure, m.loading, lambda x: GM.reference_pressure(name, P, x)
        fwd_name, inv_name = "pressure", "loading"
    else:
        xs = GM.sample_pressures(name, P, r, 12)
        forward, inverse, ref_fwd = m.loading, m.pressure, lambda x: GM.reference_loading(name, P, x, T)
        fwd_name, inv_name = "loading", "pressure"
    if name == "DSLangmuir" and P.get("K1") == P.get("K2"):
        xs = sorted(set(list(xs) + [1.0 / P["K1"], 0.5 / P["K1"], 2.0 / P["K1"]]))  # (half coverage and its neighbours, exactly representable)
    if not xs:
        ctx.count("skipped", name + "/empty-window")
        return
    sat = GM.saturation(name, P)
    # ---- (1) the forward equation equals the published equation, point by point
    ys = []
    for x in xs:
        st, y = _call(forward, x)
        ctx.case([name, dg, "equation", x])
        if st != "ok":
            ctx.violation("%s.%s/raises" % (name, fwd_name), "model evaluation raised inside the validity range", P=P, x=x, exc=y)
            return
        y = _scalar(y)
        ys.append(y)
        try:
            e = ref_fwd(x)
        except Exception:
            ctx.count("reference_unavailable", name)
            continue
        cond = 1.0
        if name in ("DR", "DA") and e > 0:
            cond = max(1.0, abs(math.log(e / P["n_m"])) * 3)  # exp() amplifies the relative error of its argument
        if name in ("Virial", "FHVST", "WVST") and e > 0 and x > 0:
            cond = max(1.0, abs(math.log(e / x * P["K"])) * 3)
        if not close(y, e, 1e-11 * cond + 1e-13, 1e-300):
            ctx.violation("%s.%s/equation" % (name, fwd_name), "value differs from the published model equation", P=P, x=x, got=y, expected=e)
            return
    # ---- (2) inverse law
    for x, y in zip(xs, ys):
        if not (y > 1e-250 and math.isfinite(y)):
            ctx.count("skipped", name + "/forward-underflow")  # e.g. DA with a tiny energy: n underflows to 0
            continue
        ctx.case([name, dg, "inverse", x], nontrivial=True)
        st, back = _call(inverse, y)
        if st != "ok":
            if numeric and _is_calc_error(back):
                ctx.count("numeric_inverse", name + "/refused")
                ctx.trivial += 1
                continue
            ctx.violation("%s.%s/raises" % (name, inv_name), "inverse raised inside the validity range", P=P, y=y, exc=back)
            continue
        try:
            back = _scalar(back)
        except ValueError:
            ctx.violation("%s.%s/shape" % (name, inv_name), "scalar input gave a non-scalar result", P=P, y=y, got=back)
            continue
        ctx.count("inverse_checked", name)
        if explicit_p:
            theta = (x / sat) if sat else 0.0
        else:
            theta = (y / sat) if sat else 0.0
        amp = 1.0 / max(1e-3, 1.0 - min(theta, 0.999))
        tol = (1e-5 if numeric else 1e-8) * amp
        fwd_err = rel_err(back, x)
        ok = fwd_err <= tol
        if easy:
            ok = abs(back - x) <= 2e-3
            ctx.count("inverse_checked", "Virial/well-conditioned-subset")
        st2, y2 = _call(forward, back)
        resid_ok = False
        if st2 == "ok":
            try:
                resid_ok = math.isfinite(_scalar(y2)) and rel_err(_scalar(y2), y) <= (1e-6 if numeric else 1e-10)
            except ValueError:
                resid_ok = False
        # physical solution: non-negative and, for pressure-explicit models, on the first (monotone) branch
        physical = back >= 0 and (not explicit_p or back <= GM.loading_window(name, P)[1] / 0.9 * 1.0001)
        if not ok and resid_ok and physical:
            ok = True  # ill-conditioned but a genuine solution (backward stable)
        if not ok:
            key = "%s/inverse" % name
            if numeric and name != "Virial":
                # the numerical inverses all use optimize.root(fun, zeros, method='hybr')
                if back == 0.0:
                    key = "numeric-inverse[hybr-from-zeros]/scalar/returns-start-point-with-success"
                elif resid_ok:
                    key = "numeric-inverse[hybr-from-zeros]/scalar/other-solution-of-the-equation"
            if easy:
                key = "Virial/inverse-on-well-conditioned-subset"
            elif name == "Virial":
                # Virial.loading = Nelder-Mead on (p(n)-p)^2 started at n0 = p with default absolute tolerances
                yb = _scalar(y2) if st2 == "ok" else float("nan")
                if st2 == "ok" and math.isfinite(yb) and (yb - y)**2 <= 1e-3 and abs(back - x) <= 1.0:
                    key = "Virial.loading/nelder-mead-absolute-tolerance"
                elif back < 0 or not math.isfinite(yb):
                    key = "Virial.loading/nelder-mead-leaves-physical-domain"
                elif resid_ok or rel_err(yb, y) <= 2e-2:
                    key = "Virial.loading/nelder-mead-other-solution-of-the-equation"
                else:
                    # a local minimum of the squared residual on another branch of a non-monotone p(n):
                    # p has a stationary point at the returned loading
                    h = 1e-4 * max(abs(back), 1e-6)
                    s1, ya = _call(forward, back - h)
                    s3, yc = _call(forward, back + h)
                    if s1 == "ok" and s3 == "ok":
                        ya, yc = _scalar(ya), _scalar(yc)
                        slope = abs(yc - ya) / (2 * h)
                        if slope * abs(back) <= 2e-2 * max(abs(yb), 1e-300) or (ya - yb) * (yc - yb) > 0:
                            key = "Virial.loading/nelder-mead-local-minimum-on-another-branch"
                    if key == "Virial/inverse":
                        # outside the well-conditioned subset (judged strictly above) the simplex search is not
                        # expected to be reliable at all
                        key = "Virial.loading/nelder-mead-unreliable-outside-well-conditioned-subset"
            ctx.violation(key, "%s(%s(x)) != x" % (inv_name, fwd_name), P=P, x=x, y=y, back=back, rel=fwd_err, theta=theta)
    # ---- (3) shape facts on the sorted grid (loading as function of pressure)
    if explicit_p:
        ps, ns = ys, xs  # p(n) on increasing n
    else:
        ps, ns = xs, ys
    ctx.case([name, dg, "shape"])
    if any((not math.isfinite(v)) for v in ns + ps):
        ctx.violation("%s/non-finite" % name, "non-finite value inside the validity range", P=P, ps=ps, ns=ns)
    elif not mono_ok:
        # Quadratic with negative constants, TemkinApprox with |theta| > 3: outside the region where the
        # defining equation is a valid (monotone, non-negative) isotherm - tabulated, not judged
        ctx.count("shape_not_judged", name + "/non-monotone-parameters")
    else:
        if min(ns) < 0:
            ctx.violation("%s/negative-loading" % name, "negative loading inside the validity range", P=P, ps=ps, ns=ns)
        if mono_ok:
            pairs = sorted(zip(ps, ns))
            for (p1, n1), (p2, n2) in zip(pairs, pairs[1:]):
                if p2 > p1 and n2 < n1 - 1e-12 * abs(n1):
                    ctx.violation("%s/not-monotone" % name, "loading decreases with pressure for monotone parameters", P=P, p=[p1, p2], n=[n1, n2])
                    break
            ctx.count("monotonicity_checked", name)
        if sat is not None and max(ns) > sat * (1 + 1e-9):
            ctx.violation("%s/above-saturation" % name, "loading exceeds the saturation capacity", P=P, ns=ns, sat=sat)
    # ---- (4) zero point
    if explicit_p:
        zs = [("pressure", m.pressure)]
    elif name in ("DR", "DA"):
        zs = []
        st, z = _call(m.loading, 0.0)
        ctx.count("tabulated_only", "%s.loading(0.0) -> %s" % (name, "0" if st == "ok" and _scalar(z) == 0 else "other"))
    else:
        zs = [("loading", m.loading)]
        if not numeric:
            zs.append(("pressure", m.pressure))
    for label, fn in zs:
        for kind, z in (("py", 0.0), ("np64", numpy.float64(0.0)), ("0d", numpy.asarray(0.0)), ("1d", numpy.array([0.0])), ("1d-mixed", numpy.array([0.0, xs[0] if label == fwd_name else ys[0]]))):
            st, v = _call(fn, z)
            ctx.case([name, dg, "zero", label, kind])
            ctx.count("zero_point", "%s.%s/%s" % (name, label, kind))
            if st != "ok":
                ctx.violation("%s.%s/zero-raises/%s" % (name, label, kind), "evaluation at the zero point raised", P=P, kind=kind, exc=v)
                continue
            v0 = float(numpy.asarray(v, dtype=float).reshape(-1)[0])
            if not (abs(v0) <= 1e-300):
                ctx.violation("%s.%s/zero-value" % (name, label), "value at the zero point is not zero", P=P, kind=kind, got=v)
    # ---- (5) Henry limit
    hs = GM.henry_slope(name, P)
    if hs is not None:
        ctx.case([name, dg, "henry"])
        if explicit_p:
            n_small = GM.loading_window(name, P)[1] * 1e-9
            st, p = _call(m.pressure, n_small)
            ok = st == "ok" and close(n_small / _scalar(p), hs, 1e-6)
            got = (n_small / _scalar(p)) if st == "ok" else p
        else:
            p_small = GM.henry_probe_pressure(name, P)
            st, n = _call(m.loading, p_small)
            tol = 1e-6
            ok = st == "ok" and close(_scalar(n) / p_small, hs, tol)
            got = (_scalar(n) / p_small) if st == "ok" else n
        if mono_ok or name != "Quadratic":
            ctx.count("henry_checked", name)
            if not ok and hs > 0:
                ctx.violation("%s/henry-limit" % name, "loading/pressure does not tend to the Henry slope at low pressure", P=P, got=got, expected=hs)
        if explicit_p and name != "Virial" and hs > 0:
            # the numerical inverse at very low (but positive) pressures, scalar and array
            for arg in (1e-10, 3e-9, numpy.array([2e-10, 5e-9])):
                st, nn = _call(m.loading, arg)
                ctx.count("henry_checked", name + "/inverse")
                if st == "ok":
                    ratio = numpy.asarray(nn, dtype=float).reshape(-1) / numpy.asarray(arg, dtype=float).reshape(-1)
                    # (the deviation from Henry's law is first order in the coverage: allowed 20 x n / capacity)
                    cover = numpy.asarray(nn, dtype=float).reshape(-1) / GM.loading_window(name, P)[1]
                    if not numpy.all(numpy.abs(ratio / hs - 1) < numpy.maximum(1e-6, 20 * numpy.abs(cover))):
                        ctx.violation("%s/henry-limit/inverse" % name, "loading(p)/p does not tend to the Henry slope at very low pressure", P=P, p=arg, got=ratio, expected=hs)
    # ---- (6) scalar / array agreement, for both functions
    for label, fn, pts in ((fwd_name, forward, xs), (inv_name, inverse, ys)):
        ref_vals = []
        for x in pts:
            st, v = _call(fn, x)
            ref_vals.append(_scalar(v) if st == "ok" else None)
        # ---- whole numbers delivered as integers (python int, numpy integer scalar, integer arrays): same values as the floats
        lo_w, hi_w = min(pts), max(pts)
        ints = [k for k in range(1, 30) if lo_w <= k <= hi_w][:3]
        if ints and not (numeric and label == inv_name and name == "Virial"):
            for ikind, arg in (("py-int", ints[0]), ("np-int", numpy.int64(ints[0])), ("0d-int", numpy.asarray(ints[0])), ("1d-int", numpy.array(ints, dtype=numpy.int64)), ("1d-int32", numpy.array(ints, dtype=numpy.int32))):
                stf, vf = _call(fn, float(arg) if numpy.ndim(arg) == 0 else numpy.asarray(arg, dtype=float))
                sti, vi = _call(fn, arg)
                ctx.case([name, dg, "integer-input", label, ikind])
                ctx.count("array_kinds", "%s/%s" % (label, ikind))
                if stf == "ok" and sti != "ok":
                    ctx.violation("%s.%s/integer-input-raises/%s" % (name, label, ikind), "an integer-typed argument raised although the same value as float is fine", P=P, arg=arg, exc=vi)
                elif stf == "ok" and sti == "ok":
                    a_, b_ = numpy.asarray(vf, dtype=float).reshape(-1), numpy.asarray(vi, dtype=float).reshape(-1)
                    if a_.shape != b_.shape or not all(close(x, y, 1e-9, 1e-300) or (math.isnan(x) and math.isnan(y)) for x, y in zip(a_, b_)):
                        ctx.violation("%s.%s/integer-input-differs/%s" % (name, label, ikind), "an integer-typed argument gives another result than the same value as float", P=P, arg=arg, as_float=a_, as_int=b_)
        # ---- a descending sweep over the same points on the same model object, then ascending again: every call stands on its own
        seq = list(pts)[::-1] + list(pts)
        second = {}
        for x in seq:
            st_, v_ = _call(fn, x)
            second.setdefault(x, []).append(_scalar(v_) if st_ == "ok" else None)
        ctx.case([name, dg, "order-of-calls", label])
        for x, ref_v in zip(pts, ref_vals):
            for v2 in second.get(x, []):
                if ref_v is not None and v2 is not None and not (close(v2, ref_v, 1e-7, 1e-300) or (math.isnan(v2) and math.isnan(ref_v))):
                    ctx.violation("%s.%s/result-depends-on-earlier-calls" % (name, label), "the same argument gives another result after a sweep in another order on the same model object", P=P, x=x, first=ref_v, later=v2)
                    break
        for kind in ("np64", "0d", "1d-1", "1d-2", "1d-all", "1d-rotated", "1d-shuffled", "list", "1d-65", "1d-129"):
            if kind == "np64":
                arg, idx = numpy.float64(pts[0]), [0]
            elif kind == "0d":
                arg, idx = numpy.asarray(pts[0]), [0]
            elif kind == "1d-1":
                arg, idx = numpy.array([pts[1]]), [1]
            elif kind == "1d-2":
                arg, idx = numpy.array(pts[:2]), [0, 1]
            elif kind == "1d-rotated":
                idx = list(range(1, len(pts))) + [0]  # (not ascending, not descending: e.g. an adsorption-desorption grid)
                arg = numpy.array([pts[i] for i in idx])
            elif kind == "1d-shuffled":
                idx = list(range(len(pts)))
                random.Random(len(pts) * 7 + 1).shuffle(idx)
                idx = idx + idx[:1]  # with a repeated value
                arg = numpy.array([pts[i] for i in idx])
            elif kind in ("1d-65", "1d-129"):
                # a long scan (more points than any block size an implementation may work in, and one over)
                if case["seed"] % 3 and not (numeric and label == inv_name):
                    continue  # (closed forms: every third case; numerical inverses: every case)
                # (cyclic, started at an offset that varies with the case, so that the first and the last element of the scan are
                # not always the same point - the zero point, whose answer is the solver's start value, would hide an element
                # that was never solved)
                off = (case["seed"] // 3) % len(pts)
                idx = [(i + off) % len(pts) for i in range(int(kind[3:]))]
                arg = numpy.array([pts[i] for i in idx])
            elif kind == "list":
                arg, idx = numpy.asarray(list(pts[:3])), [0, 1, 2]
            else:
                arg, idx = numpy.array(pts), list(range(len(pts)))
            if any(ref_vals[i] is None for i in idx):
                ctx.count("numeric_inverse", name + "/array-skipped")
                continue
            before = numpy.array(arg, dtype=float, copy=True)
            st, v = _call(fn, arg)
            ctx.case([name, dg, "array", label, kind])
            ctx.count("array_kinds", "%s/%s" % (label, kind))
            if not numpy.array_equal(before, numpy.asarray(arg, dtype=float), equal_nan=True):
                # evaluating a model must not write into the array it was given (the caller still holds it)
                ctx.violation("%s.%s/writes-into-argument" % (name, label), "the model evaluation modified the array passed to it", P=P, kind=kind, before=before, after=numpy.asarray(arg, dtype=float))
                continue
            if st != "ok":
                if numeric and label == inv_name and _is_calc_error(v):
                    ctx.count("numeric_inverse", name + "/refused-array")
                    continue
                key = "%s.%s/array-raises/%s" % (name, label, kind)
                if name == "Virial" and label == "loading" and isinstance(v, ValueError) and "scalar" in str(v) and numpy.asarray(arg).size > 1:
                    key = "Virial.loading/array-input-unsupported"
                ctx.violation(key, "an input kind raised although the scalar calls succeed", P=P, kind=kind, arg=arg, exc=v)
                continue
            got = numpy.asarray(v, dtype=float).reshape(-1)
            exp = numpy.array([ref_vals[i] for i in idx])
            is_num = numeric and label == inv_name
            if is_num and kind in ("1d-65", "1d-129"):
                ctx.count("long_scans_compared", "%s.%s/%s" % (name, label, kind))
            tol = 1e-5 if is_num else 1e-10
            # a vector root solve converges relative to the norm of the whole vector
            atol = 1e-5 * float(numpy.max(numpy.abs(exp))) if is_num else 1e-300
            if got.shape != exp.shape or not all(close(g, e, tol, atol) for g, e in zip(got, exp)):
                key = "%s.%s/array-mismatch/%s" % (name, label, kind)
                if is_num and got.shape == exp.shape:
                    # mechanism check: the vector solve (hybr from zeros over the whole array) converges relative
                    # to the norm of the vector: the large elements are right, small ones end on another solution
                    # (e.g. a negative pressure) or are left unconverged although success is reported
                    big = numpy.abs(exp) >= 0.1 * numpy.max(numpy.abs(exp))
                    big_ok = all(close(g, e, 1e-5, 0.0) for g, e in zip(got[big], exp[big]))
                    st3, chk = _call(forward, got)
                    tgt = numpy.array([pts[i] for i in idx])
                    res_ok = st3 == "ok" and numpy.all(numpy.abs(numpy.asarray(chk, dtype=float).reshape(-1) - tgt) <= 1e-6 * numpy.max(numpy.abs(tgt)))
                    # (tight: every value must be found again, to 1e-5 of itself; a loose absolute allowance would take an
                    # unconverged small element for a misplaced one)
                    permuted = len(exp) > 1 and all(close(g, e, 1e-5, 1e-12 * float(numpy.max(numpy.abs(exp)))) for g, e in zip(sorted(got), sorted(exp)))
                    # long scans repeat their inputs: one vector solve moves equal inputs together from the start value (the
                    # element-wise system and its start are symmetric in them; they may end a little apart when unconverged, which
                    # is the recorded convergence finding). An element still exactly at the start value 0.0 while an equal input
                    # elsewhere in the same array was moved to a non-zero answer is an element that was never solved - not a
                    # convergence matter
                    scale = float(numpy.max(numpy.abs(got))) if got.size else 0.0
                    groups = {}
                    for j, i in enumerate(idx):
                        groups.setdefault(i, []).append(got[j])
                    uneven = [i for i, g in groups.items() if len(g) > 1 and any(x == 0.0 for x in g) and any(abs(x) > 1e-9 * scale and x != 0.0 for x in g)]
                    if uneven:
                        ctx.count("numeric_inverse", name + "/array-element-left-at-start-value")
                    if permuted:
                        # the right values in the wrong places: not a convergence matter
                        key = "%s.%s/array-values-in-wrong-order/%s" % (name, label, kind)
                    elif uneven:
                        key = "%s.%s/array-element-never-solved/%s" % (name, label, kind)
                    elif res_ok:
                        key = "numeric-inverse[hybr-from-zeros]/array/other-solution-of-the-equation"
                    elif big_ok:
                        key = "numeric-inverse[hybr-from-zeros]/array/small-elements-unconverged-with-success"
                    elif float(numpy.max(numpy.abs(exp))) > 3.0 * float(numpy.min(numpy.abs(exp))):
                        # arrays whose elements span more than a factor 3 (narrow arrays are judged strictly)
                        key = "numeric-inverse[hybr-from-zeros]/array/wide-range-array-unreliable"
                ctx.violation(key, "array result differs from element-wise scalar results", P=P, kind=kind, got=got, expected=exp)
    if ctx.evaluations % 37 == 0:
        ctx.sample({"model": name, "params": P, "xs": xs[:3], "ys": ys[:3]})


def _run_modeliso(case, ctx):
    """(g) ModelIsotherm.loading_at / pressure_at == ref-convert . bare model . ref-convert."""
    import pygaps
    name = case["model"]
    r = gen.rng(case["seed"], "mi")
    P = GM.random_params(name, r)
    ads_name, T = r.choice(gen.FIXED_CONTEXTS)
    fl = RU.fluid(gen.backend_of(ads_name))
    units = gen.random_units(r, relative_ok=True, fraction_ok=False)
    if name in ("DR", "DA"):
        units["pressure_mode"], units["pressure_unit"] = "relative", None
    mp = gen.material_props(r)
    model = GM.make_model(name, P, pressure_range=(0.0, 1.0), loading_range=(0.0, 1.0), temperature=T)
    Tstored = T if units["temperature_unit"] == "K" else T - 273.15
    try:
        iso = pygaps.ModelIsotherm(model=model, material=dict(name="verif-mm-%d" % case["seed"], **mp), adsorbate=ads_name, temperature=Tstored, **units)
    except Exception as exc:
        ctx.error("c10: ModelIsotherm construction failed", exc)
        return
    native_p = (units["pressure_mode"], units["pressure_unit"])
    native_l = (units["loading_basis"], units["loading_unit"])
    native_m = (units["material_basis"], units["material_unit"])
    dg = _digest([P, units])
    explicit_p = name in GM.PRESSURE_EXPLICIT
    for q in range(6):
        req_p = r.choice(RU.PRESSURE_REPR)
        req_l = r.choice(RU.LOADING_REPR[:25]) if q else r.choice(RU.LOADING_REPR[25:])  # (one query per case on a fractional basis: loading per amount of material)
        req_m = r.choice(RU.MATERIAL_REPR)
        try:
            fp = RU.pressure_factor(req_p[0], req_p[1], native_p[0], native_p[1], fl, T)  # requested -> native
            fln = RU.full_loading_factor(native_l, native_m, req_l, req_m, fl, T, mp["density"], mp["molar_mass"])  # native -> requested
        except Exception:
            ctx.count("reference_unavailable", "modeliso")
            continue
        rt = max(RU.rtol_for(req_p[1], native_p[1], req_l[1], native_l[1], req_m[1], native_m[1]) * 3, 1e-8)
        if not explicit_p:
            p_nat = GM.sample_pressures(name, P, r, 1)[0]
            n_nat = _scalar(model.loading(p_nat))
        else:
            xs = GM.sample_loadings(name, P, r, 1)
            if not xs:
                return
            n_nat = xs[0]
            p_nat = _scalar(model.pressure(n_nat))
        if not (n_nat > 1e-250 and p_nat > 1e-250 and math.isfinite(n_nat) and math.isfinite(p_nat)):
            ctx.count("skipped", name + "/forward-underflow")
            continue
        p_req = p_nat / fp
        n_req = n_nat * fln
        kw_p = {"pressure_mode": req_p[0], "pressure_unit": req_p[1]}
        kw_l = {"loading_basis": req_l[0], "loading_unit": req_l[1], "material_basis": req_m[0], "material_unit": req_m[1]}
        kw_l_in = dict(kw_l)
        if req_l[0] in ("fraction", "percent"):
            # (pressure_at documents that a loading on another basis needs a unit named with it; fractions have none, any will do)
            kw_l_in["loading_unit"] = native_l[1] or "mmol"
            ctx.count("modeliso", "fractional-basis-query")
        # The comparison is made in a band: the unit factors carry a relative uncertainty rt (rounded pyGAPS
        # constants), which the model amplifies by its local slope; the band is obtained by evaluating the bare
        # model at the perturbed argument, so no conditioning estimate has to be guessed.
        def band(fn, arg, scale):
            vals = []
            for f in (1 - rt, 1.0, 1 + rt):
                st_, v_ = _call(fn, arg * f)
                if st_ != "ok":
                    return None
                v_ = _scalar(v_)
                if not math.isfinite(v_):
                    return None
                vals.append(v_ * scale)
            lo_, hi_ = min(vals), max(vals)
            slack = (1e-4 if (name in GM.NUMERIC_INVERSE) else 1e-9) + rt
            return lo_ - abs(lo_) * slack - 1e-300, hi_ + abs(hi_) * slack + 1e-300

        st, got = _call(lambda: iso.loading_at(p_req, **kw_p, **kw_l))
        ctx.case([name, dg, "loading_at", req_p, req_l, req_m])
        ctx.count("modeliso", "loading_at")
        if st != "ok":
            if name in GM.PRESSURE_EXPLICIT and _is_calc_error(got):
                ctx.count("numeric_inverse", name + "/refused")
            else:
                ctx.violation("ModelIsotherm.loading_at/raises", "model isotherm evaluation in requested units raised", model=name, units=units, req=[req_p, req_l, req_m], exc=got)
        else:
            b = band(model.loading, p_nat, fln)
            if b is None:
                ctx.count("skipped", name + "/band-unavailable")
            elif not (b[0] <= _scalar(got) <= b[1]):
                key = "ModelIsotherm.loading_at/value"
                if name == "Virial":
                    key = "Virial.loading/unreliable-through-ModelIsotherm"
                ctx.violation(key, "value differs from bare model after reference unit conversion", model=name, P=P, units=units, req=[req_p, req_l, req_m], got=got, expected=n_req, band=b,
                              p_native=p_nat, n_native=n_nat)
        st, got = _call(lambda: iso.pressure_at(n_req, **kw_p, **kw_l_in))
        ctx.case([name, dg, "pressure_at", req_p, req_l, req_m])
        ctx.count("modeliso", "pressure_at")
        numeric = name in GM.NUMERIC_INVERSE and not explicit_p
        if st != "ok":
            if numeric and _is_calc_error(got):
                ctx.count("numeric_inverse", name + "/refused")
            else:
                ctx.violation("ModelIsotherm.pressure_at/raises", "model isotherm evaluation in requested units raised", model=name, units=units, req=[req_p, req_l, req_m], exc=got)
        else:
            b = band(model.pressure, n_nat, 1.0 / fp)
            if b is None:
                ctx.count("skipped", name + "/band-unavailable")
            elif not (b[0] <= _scalar(got) <= b[1]):
                ctx.violation("ModelIsotherm.pressure_at/value", "value differs from bare model after reference unit conversion", model=name, P=P, units=units, req=[req_p, req_l, req_m], got=got, expected=p_req, band=b,
                              p_native=p_nat, n_native=n_nat)


def finalize(ctx):
    reasons = []
    inv = ctx.tables.get("inverse_checked", {})
    for n in GM.MODEL_NAMES:
        if inv.get(n, 0) < 5:
            reasons.append("inverse law judged fewer than 5 times for %s (%d)" % (n, inv.get(n, 0)))
    long_scans = ctx.tables.get("long_scans_compared", {})
    for n in ("JensenSeaton.pressure", "TSLangmuir.pressure", "TemkinApprox.pressure"):
        for k in ("1d-65", "1d-129"):
            if long_scans.get("%s/%s" % (n, k), 0) < 3:
                reasons.append("long scan %s judged fewer than 3 times through the numerical inverse %s" % (k, n))
    if sum(ctx.tables.get("modeliso", {}).values()) < 100:
        reasons.append("ModelIsotherm conversions rarely judged")
    for label, (hit, tot) in ctx.reach.items():
        if tot and not hit:
            reasons.append("anchored function %s never entered" % label)
    return reasons
