"""C19 — enthalpy methods recover the enthalpy built into consistent synthetic data."""

import math

import numpy

from pgverif import gen
from pgverif import models as GM
from pgverif.core import close
from pgverif.ref import units as RU

LEVEL = "exploration"
RULE = (
    "isosteric: case = van 't Hoff family K(T) = K0 exp(dH/RT) of Langmuir / Toth / DS-Langmuir isotherms at 2-5 temperatures "
    "(random order and spacing, common random units), as model isotherms (exact) and as densely sampled point isotherms; "
    "oracle: returned enthalpy = dH at every loading. whittaker: Langmuir/Toth model isotherms in Pa for subcritical "
    "adsorbates; oracle: closed form RT ln(p_sat K (theta^t/(1-theta^t))^((t-1)/t)) + dH_vap(p) + RT with p_sat, dH_vap from "
    "PropsSI, and the omission rule. initial point: first stored enthalpy of the branch. distinct = (method, data digest)"
)
ASSUMPTIONS = [
    "model-isotherm families are exact: tolerance 1e-6 relative; 200-point interpolated data: 2e-2",
    "PropsSI (HEOS) provides p_sat(T) and the vaporisation enthalpy at a pressure (PQ inputs); pressures below the triple "
    "point are capped to it as documented",
]
NSHARDS = {"quick": 12, "thorough": 16}
TIMEOUT = {"quick": 240, "thorough": 2400}
R_GAS = 8.31446261815324


def anchors():
    from pygaps.characterisation import enth_sorp_whittaker as w
    from pygaps.characterisation import initial_enth as ie
    from pygaps.characterisation import isosteric_enth as i
    return [("isosteric_enthalpy", i.isosteric_enthalpy), ("isosteric_enthalpy_raw", i.isosteric_enthalpy_raw), ("enthalpy_sorption_whittaker", w.enthalpy_sorption_whittaker),
            ("initial_enthalpy_point", ie.initial_enthalpy_point)]


def gen_cases(tier, seed):
    r = gen.rng(seed, "c19")
    for i in range(60 if tier == "quick" else 5000):
        yield {"kind": "isosteric", "seed": r.randrange(1 << 30), "as_points": (i // 3) % 3 == 2, "model": ["Langmuir", "Toth", "DSLangmuir"][i % 3]}
    for i in range(40 if tier == "quick" else 3000):
        yield {"kind": "whittaker", "seed": r.randrange(1 << 30), "model": ["Langmuir", "Toth"][i % 2]}
    for i in range(30 if tier == "quick" else 2000):
        yield {"kind": "initial", "seed": r.randrange(1 << 30)}
    for i in range(16 if tier == "quick" else 800):
        yield {"kind": "initial_guessed", "seed": r.randrange(1 << 30)}
    for i in range(10 if tier == "quick" else 500):
        yield {"kind": "raw", "seed": r.randrange(1 << 30)}


def run_case(case, ctx):
    ctx.count("case_kinds", case["kind"])
    globals()["_run_" + case["kind"]](case, ctx)


def _call(fn, *a, **k):
    try:
        with numpy.errstate(all="ignore"):
            return ("ok", fn(*a, **k))
    except Exception as exc:
        return ("exc", exc)


def _family_params(name, r, T, dH, Tref):
    lu = gen.log_uniform
    f = math.exp(dH / R_GAS * (1.0 / T - 1.0 / Tref))
    if name == "Langmuir":
        return lambda base: {"K": base["K"] * f, "n_m": base["n_m"]}
    if name == "Toth":
        return lambda base: {"K": base["K"] * f, "n_m": base["n_m"], "t": base["t"]}
    return lambda base: {"K1": base["K1"] * f, "K2": base["K2"] * f, "n_m1": base["n_m1"], "n_m2": base["n_m2"]}


def _run_isosteric(case, ctx):
    import pygaps
    from pygaps.characterisation.isosteric_enth import isosteric_enthalpy
    r = gen.rng(case["seed"], "iso")
    name = case["model"]
    dH = r.uniform(5e3, 60e3)  # J/mol
    nT = r.randint(2, 5)
    Ts = sorted(round(r.uniform(200, 400), 2) for _ in range(nT))
    for i in range(1, nT):
        if Ts[i] - Ts[i - 1] < 3:
            Ts[i] = round(Ts[i - 1] + 3 + r.uniform(0, 20), 2)
    Tref = Ts[len(Ts) // 2]
    lu = gen.log_uniform
    if name == "Langmuir":
        base = {"K": lu(r, 0.05, 20), "n_m": lu(r, 0.5, 20)}
    elif name == "Toth":
        base = {"K": lu(r, 0.05, 20), "n_m": lu(r, 0.5, 20), "t": r.uniform(0.4, 2.0)}
    else:
        base = {"K1": lu(r, 0.05, 5), "K2": lu(r, 0.5, 50), "n_m1": lu(r, 0.5, 10), "n_m2": lu(r, 0.5, 10)}
    units = dict(gen.DEFAULT_UNITS)
    units["pressure_unit"] = r.choice(["bar", "kPa", "Pa", "atm", "torr", "MPa"])
    units["loading_unit"] = r.choice(["mmol", "mol", "cm3(STP)"])
    units["material_unit"] = r.choice(["g", "kg"])
    units["temperature_unit"] = r.choice(["K", "°C"])
    if units["pressure_unit"] == "Pa":
        # affinities per pascal are small numbers (1e-5 ... 1e-7), pressures large ones
        for kk in [k_ for k_ in base if k_.startswith("K")]:
            base[kk] = base[kk] * 1e-5
    order = list(range(nT))
    r.shuffle(order)
    sat = GM.saturation(name, base)
    gas = "n-butane" if case["seed"] % 2 else "methane"  # (butane is subcritical over the whole range: relative pressure exists)
    isos = []
    for T in Ts:
        P = _family_params(name, r, T, dH, Tref)(base)
        Tst = T if units["temperature_unit"] == "K" else round(T - 273.15, 6)
        if case["as_points"]:
            m = GM.make_model(name, P)
            w = GM.pressure_window(name, P, max_cov=0.97)
            ps = numpy.exp(numpy.linspace(math.log(w[1] * 1e-6), math.log(w[1]), 400))
            ls = numpy.asarray(m.loading(ps), dtype=float)
            if case["seed"] % 4 == 1:
                ps, ls = ps[::-1], ls[::-1]  # (rows stored from high to low pressure: the branch is what the user says it is)
            isos.append(pygaps.PointIsotherm(pressure=list(ps), loading=list(ls), branch="ads", material="verif-c19", adsorbate=gas, temperature=Tst, **units))
        else:
            w = GM.pressure_window(name, P, max_cov=0.9)
            m = GM.make_model(name, P, pressure_range=(w[1] * 1e-3, w[1]), loading_range=(sat * 0.01, sat * 0.9))
            isos.append(pygaps.ModelIsotherm(model=m, material="verif-c19", adsorbate=gas, temperature=Tst, **units))
    isos = [isos[i] for i in order]
    explicit = r.random() < 0.6
    if explicit:
        lp = sorted(r.uniform(0.05, 0.85) * sat for _ in range(r.randint(1, 12)))
        res = _call(isosteric_enthalpy, isos, loading_points=lp)
    else:
        res = _call(isosteric_enthalpy, isos)
    from pgverif.core import _h
    dg = _h([name, base, Ts, order, units, case["as_points"]])
    ctx.case(["isosteric", dg])
    kind = "points" if case["as_points"] else "models"
    if res[0] != "ok":
        from pygaps.utilities.exceptions import CalculationError
        if case["as_points"] and isinstance(res[1], (ValueError, CalculationError)) and not explicit:
            ctx.count("refusals", "points/default-grid-out-of-range")
            ctx.trivial += 1
            return
        ctx.violation("isosteric_enthalpy/raises/%s" % kind, "isosteric analysis of a consistent van 't Hoff family raised", exc=res[1], model=name, Ts=Ts, order=order, units=units)
        return
    ctx.count("isosteric", "%s/%s/nT=%d/%s" % (kind, name, nT, "ordered" if order == sorted(order) else "shuffled"))
    got = numpy.asarray(res[1]["isosteric_enthalpy"], dtype=float)
    rt = 2e-2 if case["as_points"] else 1e-6
    if got.size == 0 or not numpy.all(numpy.isfinite(got)) or float(numpy.max(numpy.abs(got - dH / 1000))) > rt * dH / 1000:
        ctx.violation("isosteric_enthalpy/value/%s" % kind, "the returned isosteric enthalpy is not the enthalpy built into the data", model=name, dH=dH / 1000, got=got[:6], Ts=Ts, order=order, units=units, loading=res[1]["loading"][:6] if hasattr(res[1]["loading"], "__len__") else None)
    if explicit and not numpy.allclose(numpy.asarray(res[1]["loading"], dtype=float), lp):
        ctx.violation("isosteric_enthalpy/loading-points", "the requested loading points were not used", got=res[1]["loading"], expected=lp)
    # the same (already analysed) isotherm objects, converted in place to another common pressure unit, analysed again
    if explicit:
        to = r.choice([u for u in ("bar", "kPa", "Pa", "torr") if u != units["pressure_unit"]] + (["relative", "relative%"] * 2 if gas == "n-butane" else []))
        try:
            for iso in isos:
                if hasattr(iso, "convert_pressure"):
                    iso.convert_pressure(**({"mode_to": to} if to.startswith("relative") else {"unit_to": to}))
            res2 = _call(isosteric_enthalpy, isos, loading_points=lp) if hasattr(isos[0], "convert_pressure") else None
        except Exception as exc:
            res2 = ("exc", exc)
        if res2 is not None:
            ctx.case(["isosteric-after-in-place-conversion", dg, to])
            ctx.count("isosteric", "%s/after-in-place-conversion" % kind)
            got2 = numpy.asarray(res2[1]["isosteric_enthalpy"], dtype=float) if res2[0] == "ok" else None
            if got2 is None or got2.shape != got.shape or not numpy.allclose(got2, got, rtol=1e-6):
                ctx.violation("isosteric_enthalpy/changes-after-in-place-conversion/%s" % kind, "the enthalpy changes (or the analysis raises) after the analysed isotherms were converted to another pressure unit in place",
                              first=got[:4], second=(got2[:4] if got2 is not None else repr(res2[1])[:200]), unit_from=units["pressure_unit"], unit_to=to)
    if r.random() < 0.05:
        ctx.sample({"model": name, "dH_kJ": dH / 1000, "Ts": Ts, "order": order, "units": units, "as_points": case["as_points"], "returned": got[:3]})


def _run_raw(case, ctx):
    from pygaps.characterisation.isosteric_enth import isosteric_enthalpy_raw
    r = gen.rng(case["seed"], "raw")
    nT = r.randint(2, 6)
    Ts = [round(r.uniform(150, 450), 2) for _ in range(nT)]
    if len(set(Ts)) < nT:
        return
    dHs = [r.uniform(5e3, 60e3) for _ in range(r.randint(1, 8))]
    c = [r.uniform(-3, 3) for _ in dHs]
    P = numpy.array([[math.exp(ci - dh / (R_GAS * T)) for T in Ts] for ci, dh in zip(c, dHs)])
    res = _call(isosteric_enthalpy_raw, P, Ts)
    ctx.case(["isosteric-raw", case["seed"]])
    ctx.count("isosteric", "raw")
    if res[0] != "ok" or not numpy.allclose(res[1][0], numpy.array(dHs) / 1000, rtol=1e-8):
        ctx.violation("isosteric_enthalpy_raw/value", "raw Clausius-Clapeyron regression does not return the built-in enthalpy", got=res[1][0] if res[0] == "ok" else res[1], expected=numpy.array(dHs) / 1000)


def _run_whittaker(case, ctx):
    import pygaps
    from CoolProp.CoolProp import PropsSI
    from pygaps.characterisation.enth_sorp_whittaker import enthalpy_sorption_whittaker
    r = gen.rng(case["seed"], "wh")
    name = case["model"]
    ads, T = r.choice([("nitrogen", 77.355), ("argon", 87.3), ("carbon dioxide", 250.0), ("n-butane", 273.15), ("nitrogen", 90.0), ("methane", 150.0)])
    backend = gen.backend_of(ads)
    fl = RU.fluid(backend)
    p_sat, p_c, p_t = fl.p_sat(T), fl.p_crit(), fl.p_triple()
    nm = gen.log_uniform(r, 0.5, 20)
    # K chosen so that the loading grid straddles p_sat: some loadings must be omitted
    K = gen.log_uniform(r, 0.05, 20) / p_sat  # 1/Pa
    t = 1.0 if name == "Langmuir" else r.uniform(0.4, 2.0)
    P = {"K": K, "n_m": nm} if name == "Langmuir" else {"K": K, "n_m": nm, "t": t}
    m = GM.make_model(name, P, pressure_range=(0.0, p_sat), loading_range=(nm * 0.01, nm * 0.99))
    units = dict(gen.DEFAULT_UNITS, pressure_unit="Pa", loading_unit=r.choice(["mmol", "mol"]))
    iso = pygaps.ModelIsotherm(model=m, material="verif-c19w", adsorbate=ads, temperature=T, **units)
    explicit = r.random() < 0.7
    if explicit:
        loading = sorted(r.uniform(0.02, 0.98) * nm for _ in range(r.randint(2, 15)))
        if r.random() < 0.3:
            loading = [0.0] + loading
        if case["seed"] % 3 == 0:
            # the loadings in whatever order the user lists them (descending, as read off a table, shuffled)
            loading = loading[::-1] if case["seed"] % 2 else r.sample(loading, len(loading))
            ctx.count("whittaker", "requested-loadings-not-ascending")
        res = _call(enthalpy_sorption_whittaker, iso, loading=loading)
    else:
        loading = list(numpy.linspace(nm * 0.01, nm * 0.99, 100))
        res = _call(enthalpy_sorption_whittaker, iso)
    from pgverif.core import _h
    dg = _h([name, P, ads, T, loading[:3]])
    ctx.case(["whittaker", dg])
    if res[0] != "ok":
        ctx.violation("enthalpy_sorption_whittaker/raises", "Whittaker analysis of a Langmuir/Toth model isotherm raised", exc=res[1], model=name, ads=ads, T=T)
        return
    # reference
    exp_n, exp_h = [], []
    for n in loading:
        if n == 0:
            continue
        th = n / nm
        p = (n / (nm * K)) / (1 - th**t)**(1 / t)
        if not math.isfinite(p) or p < 0 or p > min(p_sat, p_c):
            continue
        pv = max(p, p_t)
        try:
            hv = PropsSI("Hmolar", "P", pv, "Q", 1, backend) - PropsSI("Hmolar", "P", pv, "Q", 0, backend)
        except Exception:
            ctx.count("reference_unavailable", "h_vap")
            return
        lam = R_GAS * T * math.log(p_sat * K * (th**t / (1 - th**t))**((t - 1) / t))
        exp_n.append(n)
        exp_h.append((lam + hv + R_GAS * T) / 1000)
    got_n = list(map(float, res[1]["loading"]))
    got_h = list(map(float, res[1]["enthalpy_sorption"]))
    ctx.count("whittaker", "%s/%s/kept=%d/omitted=%d" % (name, ads, min(len(exp_n), 1), min(len(loading) - len(exp_n), 1)))
    # loadings right at the saturation boundary may legitimately fall on either side
    near = [n for n in loading if n and abs(((n / (nm * K)) / (1 - (n / nm)**t)**(1 / t)) / min(p_sat, p_c) - 1) < 1e-9]
    if not near and (len(got_n) != len(exp_n) or not numpy.allclose(got_n, exp_n, rtol=1e-12)):
        ctx.violation("enthalpy_sorption_whittaker/omission-rule", "the loadings kept are not exactly those whose pressure lies inside [0, min(p_sat, p_c)]", kept=got_n[:8], expected=exp_n[:8], n_kept=len(got_n), n_expected=len(exp_n),
                      model=name, ads=ads, T=T)
        return
    if not near and not numpy.allclose(got_h, exp_h, rtol=1e-7):
        bad = int(numpy.argmax(numpy.abs(numpy.array(got_h) - numpy.array(exp_h))))
        ctx.violation("enthalpy_sorption_whittaker/value", "the enthalpy differs from the closed form lambda + dH_vap + RT", model=name, ads=ads, T=T, P=P, n=got_n[bad], got=got_h[bad], expected=exp_h[bad])
    if res[1].get("model_params") != iso.model.params:
        ctx.violation("enthalpy_sorption_whittaker/model_params", "returned model parameters are not the isotherm's")
    # ---- the same description as measured points: the function fits the named model itself (any accepted spelling of the name)
    if case["seed"] % 2 == 0:
        spelling = r.choice([name, name.lower(), name.upper()])
        ps = numpy.exp(numpy.linspace(math.log(p_sat * 1e-5), math.log(p_sat * 0.98), 60))
        ls = numpy.asarray(m.loading(ps), dtype=float)
        piso = pygaps.PointIsotherm(pressure=list(ps), loading=list(ls), branch="ads", material="verif-c19w", adsorbate=ads, temperature=T, **units)
        grid = [x for x in loading if x and x < float(ls.max()) * 0.95][:8]
        if len(grid) >= 2:
            rp = _call(enthalpy_sorption_whittaker, piso, model=spelling, loading=grid)
            ctx.case(["whittaker-points", dg, spelling])
            ctx.count("whittaker", "points/%s" % ("canonical-name" if spelling == name else "other-spelling"))
            if rp[0] != "ok":
                ctx.count("refusals", "whittaker-points/" + type(rp[1]).__name__)
            else:
                fp = rp[1].get("model_params") or {}
                Kf, nmf, tf = fp.get("K"), fp.get("n_m"), fp.get("t", 1.0)
                hs, ns = [], []
                for n in grid:
                    th = n / nmf
                    if not 0 < th < 1:
                        continue
                    p = (n / (nmf * Kf)) / (1 - th**tf)**(1 / tf)
                    if not math.isfinite(p) or p < 0 or p > min(p_sat, p_c) * (1 - 1e-6):
                        continue
                    pv = max(p, p_t)
                    hv = PropsSI("Hmolar", "P", pv, "Q", 1, backend) - PropsSI("Hmolar", "P", pv, "Q", 0, backend)
                    ns.append(n)
                    hs.append((R_GAS * T * math.log(p_sat * Kf * (th**tf / (1 - th**tf))**((tf - 1) / tf)) + hv + R_GAS * T) / 1000)
                gn, gh = list(map(float, rp[1]["loading"])), list(map(float, rp[1]["enthalpy_sorption"]))
                if len(gn) == len(ns) and numpy.allclose(gn, ns, rtol=1e-12) and not numpy.allclose(gh, hs, rtol=1e-6):
                    bad = int(numpy.argmax(numpy.abs(numpy.array(gh) - numpy.array(hs))))
                    ctx.violation("enthalpy_sorption_whittaker/value-for-fitted-description", "the enthalpy is not the closed form evaluated with the parameters the function reports to have fitted", model=spelling,
                                  fitted=fp, n=gn[bad], got=gh[bad], expected=hs[bad])


def _run_initial(case, ctx):
    import pandas
    import pygaps
    from pygaps.characterisation.initial_enth import initial_enthalpy_point
    r = gen.rng(case["seed"], "ini")
    spec = gen.point_spec(r, n=r.randint(2, 30), units=gen.random_units(r) if r.random() < 0.5 else None, extras=True, meta={})
    key = "enthalpy"
    route = r.choice(["df", "df_offset", "df_perm", "df_branchcol"])
    iso = gen.build_point(spec, route)
    for branch in ("ads", "des"):
        rows = [i for i, b in enumerate(spec["branch"]) if b == (0 if branch == "ads" else 1)]
        res = _call(initial_enthalpy_point, iso, key, branch=branch)
        ctx.case(["initial", branch, route, case["seed"]])
        if not rows:
            ctx.count("initial", "empty-branch/" + res[0])
            continue
        ctx.count("initial", branch)
        exp = spec["extra"][key][rows[0]]
        if res[0] != "ok" or not close(float(res[1]["initial_enthalpy"]), exp, 1e-15):
            ctx.violation("initial_enthalpy_point/value", "does not return the first measured enthalpy of the chosen branch", branch=branch, route=route, got=res[1] if res[0] != "ok" else res[1]["initial_enthalpy"], expected=exp)


def _run_initial_guessed(case, ctx):
    """A full cycle as a calorimeter writes it (no branch marks; the turning pressure is recorded twice: last adsorption point,
    first desorption point): rows up to and including the first pressure maximum are adsorption, the rest desorption."""
    import pandas
    import pygaps
    from pygaps.characterisation.initial_enth import initial_enthalpy_point
    r = gen.rng(case["seed"], "ini-g")
    na, nd = r.randint(2, 15), r.randint(1, 12)
    up = sorted({round(r.uniform(0.01, 1.0), 5) for _ in range(na)})
    top = up[-1]
    tie = case["seed"] % 2 == 0
    down = sorted({round(r.uniform(0.001, top * 0.98), 5) for _ in range(nd)}, reverse=True)
    p = up + ([top] if tie else []) + down
    h = [round(r.uniform(5, 60), 4) for _ in p]
    l = [round(0.1 * (i + 1), 3) for i in range(len(p))]
    df = pandas.DataFrame({"pressure": p, "loading": l, "enthalpy": h})
    if case["seed"] % 3 == 0:
        df.index = range(7, 7 + len(p))
    iso = pygaps.PointIsotherm(isotherm_data=df, pressure_key="pressure", loading_key="loading", other_keys=["enthalpy"], material="verif-c19g", adsorbate="nitrogen", temperature=77.0, **gen.DEFAULT_UNITS)
    first_des = len(up)
    for branch, exp in (("ads", h[0]), ("des", h[first_des])):
        res = _call(initial_enthalpy_point, iso, "enthalpy", branch=branch)
        ctx.case(["initial-guessed", branch, tie, case["seed"]])
        ctx.count("initial", "guessed-branches/%s/%s" % (branch, "turning-pressure-recorded-twice" if tie else "unique-maximum"))
        if res[0] != "ok" or not close(float(res[1]["initial_enthalpy"]), exp, 1e-15):
            ctx.violation("initial_enthalpy_point/value/guessed-branches", "does not return the first measured enthalpy of the chosen branch of a recorded cycle", branch=branch, tie=tie, pressures=p,
                          got=res[1] if res[0] != "ok" else res[1]["initial_enthalpy"], expected=exp)


def finalize(ctx):
    reasons = []
    iso = ctx.tables.get("isosteric", {})
    if sum(v for k, v in iso.items() if k.startswith("models")) < 20:
        reasons.append("fewer than 20 model-isotherm families analysed")
    if sum(v for k, v in iso.items() if k.startswith("points")) < 8:
        reasons.append("fewer than 8 point-isotherm families analysed")
    if not any("shuffled" in k for k in iso):
        reasons.append("no family with temperatures out of order")
    w = ctx.tables.get("whittaker", {})
    if sum(w.values()) < 20:
        reasons.append("fewer than 20 Whittaker analyses")
    if not any("omitted=1" in k for k in w):
        reasons.append("the omission rule was never exercised")
    if sum(v for k, v in ctx.tables.get("initial", {}).items() if k in ("ads", "des")) < 20:
        reasons.append("initial enthalpy judged fewer than 20 times")
    for label, (hit, tot) in ctx.reach.items():
        if tot and not hit:
            reasons.append("anchored function %s never entered" % label)
    return reasons
