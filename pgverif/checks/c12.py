"""C12 — model fitting is self-consistent.

Recording hook on IsothermBaseModel.fit / Virial.fit (what data, which bounds, which result
or exception per attempt) + postconditions on ModelIsotherm / PointIsotherm objects.
"""

import copy
import math

import numpy

from pgverif import gen
from pgverif import models as GM
from pgverif import probes
from pgverif.core import close
from pgverif.ref import units as RU

LEVEL = "exploration"
RULE = (
    "case kinds: exact (data generated from the model that is fitted), rmse (any model on noisy increasing data: reported "
    "error vs recomputed normalised RMS deviation), guess (best-of-list over the attempts logged by the fit hook), bounds "
    "(user and default bounds vs fitted parameters), branch (data logged at the fit hook vs requested branch rows), "
    "from_model (PointIsotherm.from_modelisotherm and re-fit), covariance (same data in other units); evaluations = oracle "
    "comparisons; distinct = (kind, model, data digest); a fit refused with CalculationError is trivial"
)
ASSUMPTIONS = [
    "exact-data reproduction tolerance: max deviation <= 1e-5 x loading range (least_squares default tolerances 1e-8)",
    "rmse normalisation as documented in the code: sqrt(mean r^2) / (max - min of the fitted quantity); Virial: sqrt(mean r^2) "
    "of its linearised residual ln(p/n) polynomial",
    "unit covariance only for transformations under which the model family is closed (pressure / loading unit scalings for "
    "Henry, Langmuir, DSLangmuir, Toth, Freundlich, TemkinApprox, JensenSeaton; temperature unit for DR / DA)",
]
NSHARDS = {"quick": 16, "thorough": 16}
TIMEOUT = {"quick": 240, "thorough": 3000}

_LOG = []
_HANDLES = []


def setup(ctx):
    """Install the recording hook on the real fit functions."""
    from pygaps.modelling.base_model import IsothermBaseModel
    from pygaps.modelling.virial import Virial

    def before(args, kwargs):
        self = args[0]
        p = numpy.array(args[1], dtype=float, copy=True)
        l = numpy.array(args[2], dtype=float, copy=True)
        return {"model": self.name, "pressure": p, "loading": l, "bounds": copy.deepcopy(self.param_bounds), "guess": copy.deepcopy(args[3]) if len(args) > 3 else None}

    def after(token, args, kwargs, result):
        self = args[0]
        token.update(outcome="ok", params=dict(self.params), rmse=float(self.rmse), prange=tuple(self.pressure_range), lrange=tuple(self.loading_range))
        _LOG.append(token)
        ctx.hook("fit")

    def on_raise(token, args, kwargs, exc):
        token.update(outcome="exc", exc=exc)
        _LOG.append(token)
        ctx.hook("fit-raised")

    _HANDLES.append(probes.wrap(IsothermBaseModel, "fit", before, after, on_raise))
    _HANDLES.append(probes.wrap(Virial, "fit", before, after, on_raise))


def teardown(ctx):
    for h in _HANDLES:
        h.restore()


def anchors():
    import pygaps
    from pygaps.modelling import model_iso
    from pygaps.modelling.base_model import IsothermBaseModel
    M = pygaps.ModelIsotherm
    return [("IsothermBaseModel.fit", IsothermBaseModel.fit.__wrapped__ if hasattr(IsothermBaseModel.fit, "__wrapped__") else IsothermBaseModel.fit), ("ModelIsotherm.__init__", M.__init__),
            ("ModelIsotherm.guess", M.guess), ("ModelIsotherm.from_pointisotherm", M.from_pointisotherm), ("PointIsotherm.from_modelisotherm", pygaps.PointIsotherm.from_modelisotherm),
            ("model_iso", model_iso)]


def gen_cases(tier, seed):
    r = gen.rng(seed, "c12")
    n = 12 if tier == "quick" else 500
    for name in GM.WELL_POSED_FIT:
        for i in range(n):
            yield {"kind": "exact", "model": name, "seed": r.randrange(1 << 30)}
    for name in GM.MODEL_NAMES:
        for i in range((8 if name == "Virial" else 4) if tier == "quick" else 150):
            if name in ("FHVST", "WVST") and i % 2:
                continue
            yield {"kind": "rmse", "model": name, "seed": r.randrange(1 << 30), "origin": i % 4 != 3 if name == "Virial" else i % 2 == 1}
    for i in range(10 if tier == "quick" else 400):
        yield {"kind": "guess", "seed": r.randrange(1 << 30)}
    for i in range(30 if tier == "quick" else 1500):
        yield {"kind": "bounds", "seed": r.randrange(1 << 30)}
    for i in range(30 if tier == "quick" else 1500):
        yield {"kind": "branch", "seed": r.randrange(1 << 30)}
    for i in range(30 if tier == "quick" else 1500):
        yield {"kind": "from_model", "seed": r.randrange(1 << 30), "model": GM.WELL_POSED_FIT[i % len(GM.WELL_POSED_FIT)]}
    for i in range(40 if tier == "quick" else 1500):
        yield {"kind": "covariance", "seed": r.randrange(1 << 30)}


def run_case(case, ctx):
    ctx.count("case_kinds", case["kind"])
    del _LOG[:]
    globals()["_run_" + case["kind"]](case, ctx)


def _call(fn, *a, **k):
    try:
        with numpy.errstate(all="ignore"):
            return ("ok", fn(*a, **k))
    except Exception as exc:
        return ("exc", exc)


def _is_calc(exc):
    from pygaps.utilities.exceptions import CalculationError
    return isinstance(exc, CalculationError)


def _fit_params(name, r):
    """Generating parameters in a regime where the data determine them."""
    lu = gen.log_uniform
    if name == "Henry":
        return {"K": round(lu(r, 0.01, 100), 6)}
    if name == "Langmuir":
        return {"K": round(lu(r, 0.05, 50), 6), "n_m": round(lu(r, 0.5, 20), 6)}
    if name == "DSLangmuir":
        k1 = lu(r, 0.05, 2)
        return {"n_m1": round(lu(r, 0.5, 10), 6), "K1": round(k1, 6), "n_m2": round(lu(r, 0.5, 10), 6), "K2": round(k1 * lu(r, 5, 50), 6)}
    if name == "BET":
        return {"n_m": round(lu(r, 0.5, 20), 6), "C": round(lu(r, 5, 500), 6), "N": round(r.uniform(0.3, 1.0), 6)}
    if name == "Freundlich":
        return {"K": round(lu(r, 0.1, 20), 6), "m": round(r.uniform(1.0, 5.0), 6)}
    if name == "DR":
        return {"n_m": round(lu(r, 0.5, 20), 6), "e": round(lu(r, 2e3, 2e4), 4)}
    if name == "DA":
        return {"n_m": round(lu(r, 0.5, 20), 6), "e": round(lu(r, 2e3, 2e4), 4), "m": round(r.uniform(1.2, 2.8), 6)}
    if name == "TemkinApprox":
        return {"n_m": round(lu(r, 0.5, 20), 6), "K": round(lu(r, 0.05, 50), 6), "tht": round(r.uniform(0.0, 1.5), 6)}
    if name == "Toth":
        return {"n_m": round(lu(r, 0.5, 20), 6), "K": round(lu(r, 0.05, 50), 6), "t": round(r.uniform(0.4, 2.0), 6)}
    if name == "JensenSeaton":
        return {"K": round(lu(r, 0.5, 50), 6), "a": round(lu(r, 0.5, 10), 6), "b": round(lu(r, 0.01, 1), 6), "c": round(r.uniform(0.5, 2.5), 6)}
    return GM.random_params(name, r, typed=False)


def _grid_for(name, P, r, n=None):
    n = n or r.randint(8, 60)
    if name in ("DR", "DA"):
        lo, hi = 1e-5, 0.9
    elif name == "BET":
        lo, hi = 0.005, 0.7 / P["N"] if P["N"] > 0.7 else 0.9
        hi = min(hi, 0.9 / P["N"])
    elif name in ("Henry", "Freundlich", "JensenSeaton"):
        lo, hi = 0.01, 30.0
    else:
        w = GM.pressure_window(name, P, max_cov=0.93)
        lo, hi = w[1] * 1e-3, w[1]
    if r.random() < 0.5:
        p = numpy.exp(numpy.linspace(math.log(lo), math.log(hi), n))
    else:
        p = numpy.linspace(lo, hi, n)
    return p


def _ctx_for(name):
    if name in ("DR", "DA", "BET", "GAB"):
        return dict(gen.DEFAULT_UNITS, pressure_mode="relative", pressure_unit=None), "nitrogen", 77.355
    return dict(gen.DEFAULT_UNITS), "nitrogen", 77.355


def _recompute_rmse(rec):
    """The documented error of one logged fit, recomputed from the logged data and the resulting model."""
    name, P = rec["model"], rec["params"]
    p, l = rec["pressure"], rec["loading"]
    m = GM.make_model(name, P, temperature=77.355)
    return m, p, l


def _run_exact(case, ctx):
    import pygaps
    name = case["model"]
    r = gen.rng(case["seed"], "ex")
    P = _fit_params(name, r)
    units, ads, T = _ctx_for(name)
    p = _grid_for(name, P, r)
    m0 = GM.make_model(name, P, temperature=T)
    l = numpy.asarray(m0.loading(p), dtype=float)
    if not numpy.all(numpy.isfinite(l)) or l.max() - l.min() <= 0 or l.min() < 0:
        ctx.count("skipped", name + "/degenerate-data")
        return
    from pgverif.core import _h
    dg = _h([name, P, len(p)])
    extra = {}
    tkw = {"temperature": T}
    if case["seed"] % 2 == 0:
        # the temperature as the instrument wrote it, in degrees Celsius
        tkw = gen.temp_kw(T, celsius=True)
        units = {k_: v_ for k_, v_ in units.items() if k_ != "temperature_unit"}
        ctx.count("exact_variants", "temperature-in-celsius")
    if case["seed"] % 3 == 0:
        # user bounds that contain the generating parameters (a window around physically sensible values): the exact fit lies inside
        from pygaps.modelling import get_isotherm_model
        dflt = get_isotherm_model(name).param_bounds
        ub = {}
        for k_, v_ in P.items():
            lo_, hi_ = (v_ * r.uniform(0.4, 0.8), v_ * r.uniform(1.25, 1.7)) if v_ > 0 else (v_ * r.uniform(1.25, 1.7), v_ * r.uniform(0.4, 0.8)) if v_ < 0 else (-1.0, 1.0)
            if (case["seed"] % 2 or name == "Toth") and math.isfinite(dflt[k_][0]):
                lo_ = dflt[k_][0]  # (only an upper limit of one's own: the lower one stays where the model has it)
            if name == "Toth" and k_ == "t" and v_ < 0.9:
                hi_ = 0.95  # (a heterogeneity exponent known to be below one: the library's default start lies above this limit)
            ub[k_] = (max(lo_, dflt[k_][0]), min(hi_, dflt[k_][1]))
        extra["param_bounds"] = ub
        ctx.count("exact_variants", "user-bounds-around-the-generating-parameters")
    shared_opt = None
    if case["seed"] % 4 == 1:
        # the user keeps one dictionary of optimiser options for all fits of a session
        shared_opt = {"max_nfev": 4000}
        extra["optimization_params"] = shared_opt
    res = _call(pygaps.ModelIsotherm, pressure=list(p), loading=list(l), model=name, material="verif-c12", adsorbate=ads, **tkw, **units, **extra)
    ctx.case(["exact", name, dg])
    if res[0] != "ok":
        if _is_calc(res[1]):
            ctx.count("fit_refused", name)
            ctx.trivial += 1
        else:
            ctx.violation("fit/%s/raises/%s" % (name, type(res[1]).__name__), "fitting exact data raised something other than a calculation error", exc=res[1], P=P)
        return
    iso = res[1]
    ctx.count("fit_ok", name)
    pred = numpy.asarray(iso.loading_at(p), dtype=float)
    rng = l.max() - l.min()
    dev = float(numpy.max(numpy.abs(pred - l)))
    if dev > 1e-5 * rng:
        key_ = _not_reproduced_key(name, iso, dev, rng)
        if "param_bounds" in extra and (case["seed"] % 2 or name == "Toth") and float(iso.model.rmse) * rng >= 0.05 * dev and dev <= 0.1 * rng:
            # an honest local minimum (the reported error says so; a few percent of the range) of a fit started from the library's
            # default guess trimmed into bounds of which the user tightened only the upper limits: recorded mechanism (same family
            # as the Jensen-Seaton one); with default bounds, or a window on both sides, the same fit is judged strictly, and so is
            # any larger or unreported deviation
            key_ = "fit/local-minimum-from-default-start-trimmed-into-upper-limits"
        ctx.violation(key_, "a fit to data generated exactly from the same model does not reproduce the data", P=P, fitted=dict(iso.model.params), max_dev=dev, range=rng,
                      rmse=iso.model.rmse, npoints=len(p))
    _check_logged(ctx, iso, name, p, l)
    if shared_opt is not None and res[0] == "ok":
        ctx.count("exact_variants", "options-dictionary-shared-by-two-fits")
        if shared_opt != {"max_nfev": 4000}:
            ctx.violation("fit/options-dictionary-modified", "the fit changed the caller's dictionary of optimiser options", now=sorted(map(str, shared_opt)))
        P2 = _fit_params(name, r)
        l2 = numpy.asarray(GM.make_model(name, P2, temperature=T).loading(p), dtype=float)
        if numpy.all(numpy.isfinite(l2)) and l2.max() - l2.min() > 0 and l2.min() >= 0:
            ex2 = {k_: v_ for k_, v_ in extra.items() if k_ != "param_bounds"}
            res2 = _call(pygaps.ModelIsotherm, pressure=list(p), loading=list(l2), model=name, material="verif-c12", adsorbate=ads, **tkw, **units, **ex2)
            ctx.case(["exact-second-fit-same-options", name, dg])
            ctl = _call(pygaps.ModelIsotherm, pressure=list(p), loading=list(l2), model=name, material="verif-c12", adsorbate=ads, **tkw, **units, **dict(ex2, optimization_params={"max_nfev": 4000}))
            if res2[0] == "ok" and ctl[0] == "ok":
                pred2 = numpy.asarray(res2[1].loading_at(p), dtype=float)
                rng2 = l2.max() - l2.min()
                dev2 = float(numpy.max(numpy.abs(pred2 - l2)))
                devc = float(numpy.max(numpy.abs(numpy.asarray(ctl[1].loading_at(p), dtype=float) - l2)))
                # (judged against the same fit given a fresh dictionary: whether this model's fit of these data converges at all is
                # the business of the first clause)
                if dev2 > 1e-5 * rng2 and devc <= 1e-5 * rng2:
                    ctx.violation(_not_reproduced_key(name, res2[1], dev2, rng2) + "/second-fit-with-the-same-options", "a second fit given the same options dictionary does not reproduce its own (exact) data", P=P2,
                                  fitted=dict(res2[1].model.params), max_dev=dev2, range=rng2, first_fit=P)
    if r.random() < 0.04:
        ctx.sample({"kind": "exact", "model": name, "generating": P, "fitted": dict(iso.model.params), "rmse": float(iso.model.rmse)})


def _not_reproduced_key(name, iso, dev, rng):
    """Mechanism key for 'exact data not reproduced'."""
    key = "fit/%s/exact-data-not-reproduced" % name
    # an *honest* local minimum: the optimiser stopped at a worse fit and says so (reported error consistent with the
    # deviation seen); only the 4-parameter Jensen-Seaton model, started from the fixed guess a = b = c = 1, is known for it
    if name == "JensenSeaton" and float(iso.model.rmse) * rng >= 0.05 * dev:
        key = "fit/JensenSeaton/local-minimum-from-fixed-initial-guess"
    return key


def _check_logged(ctx, iso, name, p, l, branch_rows=None):
    """rmse identity, bounds and data identity from the last successful logged fit of this model."""
    recs = [x for x in _LOG if x["model"] == iso.model.name and x["outcome"] == "ok"]
    if not recs:
        ctx.violation("fit-hook/not-reached", "the model was fitted but the fit hook saw nothing", model=name)
        return
    rec = recs[-1]
    # the data actually passed to the fit
    ctx.case(["fit-data", name, len(p)])
    if len(rec["pressure"]) != len(p) or not numpy.allclose(rec["pressure"], p, rtol=0, atol=0) or not numpy.allclose(rec["loading"], l, rtol=0, atol=0):
        ctx.violation("fit/data-passed-differs", "the data handed to the fitting routine are not the requested rows", model=name, n_logged=len(rec["pressure"]), n_expected=len(p))
    # fitted parameters respect the bounds in force
    ctx.case(["fit-bounds", name])
    for k, v in rec["params"].items():
        lo, hi = rec["bounds"][k]
        if not (lo - 1e-12 * (1 + abs(lo)) <= v <= hi + 1e-12 * (1 + abs(hi))):
            ctx.violation("fit/bounds-violated", "a fitted parameter lies outside the bounds in force", model=name, param=k, value=v, bounds=[lo, hi])
    # reported error == actual normalised RMS deviation
    ctx.case(["fit-rmse", name])
    m = iso.model
    if name == "Virial":
        ok = rec["loading"] > 0
        pp, ll = rec["pressure"][ok & (rec["pressure"] > 0)], rec["loading"][ok & (rec["pressure"] > 0)]
        Pm = m.params
        res = Pm["C"] * ll**3 + Pm["B"] * ll**2 + Pm["A"] * ll - math.log(Pm["K"]) - numpy.log(pp / ll)
        frac = ll / ll.max()
        if len(frac[frac < 0.5]) < 3:
            ctx.count("skipped", "Virial/added-point")
            return
        exp = math.sqrt(float(numpy.sum(res**2)) / len(ll))
    elif m.calculates == "loading":
        res = numpy.asarray(m.loading(rec["pressure"]), dtype=float) - rec["loading"]
        exp = math.sqrt(float(numpy.sum(res**2)) / len(rec["loading"])) / (rec["loading"].max() - rec["loading"].min())
    else:
        res = numpy.asarray(m.pressure(rec["loading"]), dtype=float) - rec["pressure"]
        exp = math.sqrt(float(numpy.sum(res**2)) / len(rec["loading"])) / (rec["pressure"].max() - rec["pressure"].min())
    ctx.count("rmse_checked", name)
    if not close(float(m.rmse), exp, 1e-7, 1e-14):
        ctx.violation("fit/%s/rmse-identity" % ("Virial" if name == "Virial" else "generic"), "the reported fit error differs from the recomputed normalised RMS deviation", model=name, reported=float(m.rmse), recomputed=exp)


def _noisy(r, n):
    p = numpy.array(gen.increasing(r, n, 0.01, 0.9 if False else 5.0))
    base = 6 * p / (1 + 1.5 * p) + 0.3 * p
    noise = numpy.array([r.gauss(0, 0.02) for _ in range(n)])
    l = numpy.maximum.accumulate(numpy.abs(base * (1 + noise)) + 1e-3)
    l = l + numpy.arange(n) * 1e-6
    return p, l


def _run_rmse(case, ctx):
    import pygaps
    name = case["model"]
    r = gen.rng(case["seed"], "rm")
    units, ads, T = _ctx_for(name)
    n = r.randint(10, 40)
    p, l = _noisy(r, n)
    if name in ("DR", "DA", "BET", "GAB"):
        p = p / p.max() * 0.6
    opt = {"add_point": True} if name == "Virial" else None
    if name in ("Virial", "Henry", "Langmuir", "Toth") and case.get("origin"):
        # measured series usually start with the origin (the Virial fit has to leave such points out: ln(p/n))
        p, l = numpy.concatenate([[0.0], p]), numpy.concatenate([[0.0], l])
        ctx.count("rmse_with_origin_point", name)
    res = _call(pygaps.ModelIsotherm, pressure=list(p), loading=list(l), model=name, material="verif-c12", adsorbate=ads, temperature=T, optimization_params=opt, **units)
    ctx.case(["rmse", name, case["seed"]])
    if res[0] != "ok":
        if _is_calc(res[1]):
            ctx.count("fit_refused", name)
            ctx.trivial += 1
        else:
            ctx.violation("fit/%s/raises/%s" % (name, type(res[1]).__name__), "fitting noisy increasing data raised something other than a calculation error", exc=res[1])
        return
    ctx.count("fit_ok", name)
    _check_logged(ctx, res[1], name, p, l)
    # ---- a fit that was not allowed to finish (two function evaluations) either says so or is a fit nevertheless:
    # restarting from what it returned must not find a clearly better curve
    if name != "Virial":
        lim_ = _call(pygaps.ModelIsotherm, pressure=list(p), loading=list(l), model=name, material="verif-c12", adsorbate=ads, temperature=T, optimization_params={"max_nfev": 2}, **units)
        ctx.case(["budget", name, case["seed"]])
        if lim_[0] != "ok":
            ctx.count("evaluation_budget", "refused" if _is_calc(lim_[1]) else type(lim_[1]).__name__)
        else:
            again = _call(pygaps.ModelIsotherm, pressure=list(p), loading=list(l), model=name, material="verif-c12", adsorbate=ads, temperature=T, param_guess=dict(lim_[1].model.params), **units)
            ctx.count("evaluation_budget", "returned")
            if again[0] == "ok" and float(again[1].model.rmse) < 0.9 * float(lim_[1].model.rmse) - 1e-12:
                ctx.violation("fit/unconverged-fit-returned-as-converged", "a fit that ran out of function evaluations was returned without an error: restarting from it finds a clearly better curve", model=name,
                              rmse_returned=float(lim_[1].model.rmse), rmse_after_restart=float(again[1].model.rmse))


def _run_guess(case, ctx):
    import pygaps
    r = gen.rng(case["seed"], "gu")
    n = r.randint(10, 40)
    p, l = _noisy(r, n)
    flavour = r.choice(["guess", "list", "model_iso"])
    models = "guess" if flavour != "list" else r.sample(["Henry", "Langmuir", "DSLangmuir", "Freundlich", "Toth", "TemkinApprox", "Quadratic", "BET", "JensenSeaton"], r.randint(2, 5))
    kw = dict(material="verif-c12", adsorbate="nitrogen", temperature=77.355, **gen.DEFAULT_UNITS)
    if flavour == "model_iso":
        from pygaps.modelling import model_iso
        piso = pygaps.PointIsotherm(pressure=list(p), loading=list(l), branch="ads", **kw)
        res = _call(model_iso, piso, model="guess")
    else:
        res = _call(pygaps.ModelIsotherm.guess, pressure=list(p), loading=list(l), models=models, **kw)
    ctx.case(["guess", flavour, case["seed"]])
    if res[0] != "ok":
        if _is_calc(res[1]):
            ctx.count("fit_refused", "guess")
            ctx.trivial += 1
        else:
            ctx.violation("guess/raises/%s" % type(res[1]).__name__, "guess raised something other than a calculation error", exc=res[1], models=models)
        return
    best = res[1]
    ok = [x for x in _LOG if x["outcome"] == "ok"]
    ctx.count("guess", "%s/attempts=%d/converged=%d" % (flavour, len(_LOG), len(ok)))
    if not ok:
        ctx.violation("guess/no-logged-attempt", "guess returned but no converged attempt was logged")
        return
    tried = [x["model"] for x in _LOG]
    expected_models = None if models == "guess" else models
    if expected_models and sorted(set(tried)) != sorted(set(expected_models)):
        ctx.violation("guess/models-tried", "the models tried are not the models requested", tried=tried, requested=expected_models)
    mn = min(x["rmse"] for x in ok)
    if not close(float(best.model.rmse), mn, 1e-12) or best.model.name not in [x["model"] for x in ok if close(x["rmse"], mn, 1e-12)]:
        ctx.violation("guess/not-the-minimum-error", "the returned model does not have the smallest reported error among the converged attempts", returned=[best.model.name, float(best.model.rmse)],
                      attempts=[[x["model"], x.get("rmse")] for x in _LOG])


def _run_bounds(case, ctx):
    import pygaps
    r = gen.rng(case["seed"], "bo")
    name = r.choice(["Langmuir", "Toth", "DSLangmuir", "Freundlich", "TemkinApprox", "BET"])
    P = _fit_params(name, r)
    units, ads, T = _ctx_for(name)
    p = _grid_for(name, P, r, n=r.randint(8, 30))
    l = numpy.asarray(GM.make_model(name, P, temperature=T).loading(p), dtype=float)
    if not numpy.all(numpy.isfinite(l)) or l.max() <= l.min():
        return
    # user bounds in a key order different from the model's parameter order, one of them active
    names = list(P)
    r.shuffle(names)
    active = names[0]
    bounds = {}
    for k in names:
        if k == active:
            bounds[k] = (0.0, P[k] * r.uniform(0.3, 0.8))  # excludes the generating value
        else:
            bounds[k] = (0.0, P[k] * r.uniform(5, 100) + 10)
    if name == "BET":
        bounds["N"] = (0.0, min(bounds["N"][1], 1.0))
    res = _call(pygaps.ModelIsotherm, pressure=list(p), loading=list(l), model=name, param_bounds=bounds, material="verif-c12", adsorbate=ads, temperature=T, **units)
    ctx.case(["bounds", name, case["seed"]])
    if res[0] != "ok":
        ctx.count("fit_refused", name + "/with-user-bounds/" + type(res[1]).__name__)
        ctx.trivial += 1
        return
    iso = res[1]
    ctx.count("bounds", name)
    for k, (lo, hi) in bounds.items():
        v = iso.model.params[k]
        if not (lo - 1e-9 <= v <= hi * (1 + 1e-9) + 1e-12):
            ctx.violation("fit/user-bounds-violated", "a fitted parameter lies outside the user's bounds", model=name, param=k, value=v, bounds=[lo, hi], all_bounds=bounds, order=list(bounds))
    rec = [x for x in _LOG if x["outcome"] == "ok"][-1]
    for k in bounds:
        if tuple(rec["bounds"][k]) != tuple(bounds[k]):
            ctx.violation("fit/user-bounds-not-in-force", "the bounds in force at the fit are not the user's bounds", param=k, in_force=rec["bounds"][k], user=bounds[k])
    # user guess is honoured as the starting point
    guess = {k: min(max(P[k] * 0.9, bounds[k][0]), bounds[k][1]) for k in P}
    del _LOG[:]
    res = _call(pygaps.ModelIsotherm, pressure=list(p), loading=list(l), model=name, param_bounds=bounds, param_guess=guess, material="verif-c12", adsorbate=ads, temperature=T, **units)
    if res[0] == "ok" and _LOG and _LOG[-1].get("guess") is not None:
        ctx.case(["guess-forwarded", name])
        if {k: float(v) for k, v in _LOG[-1]["guess"].items()} != {k: float(v) for k, v in guess.items()}:
            ctx.violation("fit/user-guess-not-forwarded", "the starting point at the fit is not the user's guess", logged=_LOG[-1]["guess"], user=guess)


def _run_branch(case, ctx):
    import pygaps
    r = gen.rng(case["seed"], "br")
    name = r.choice(["Langmuir", "Henry", "Toth", "Freundlich"])
    P = _fit_params(name, r)
    p = _grid_for(name, P, r, n=r.randint(8, 25))
    l = numpy.asarray(GM.make_model(name, P).loading(p), dtype=float)
    if case["seed"] % 2:
        # the user's marks need not agree with a split at the pressure maximum: adsorption rows in measured (non-monotone) order
        perm = list(range(len(p)))
        r.shuffle(perm)
        p, l = p[perm], l[perm]
        ctx.count("branch", "marks-disagree-with-a-split-at-the-pressure-maximum")
    # desorption branch: unrelated garbage
    nd = r.randint(3, 12)
    pd_ = numpy.array(sorted((r.uniform(p.min(), p.max() * 0.99) for _ in range(nd)), reverse=True))
    ld = numpy.array(sorted((r.uniform(l.max() * 2, l.max() * 5) for _ in range(nd)), reverse=True))
    P_all, L_all = numpy.concatenate([p, pd_]), numpy.concatenate([l, ld])
    marks = [False] * len(p) + [True] * nd
    kw = dict(material="verif-c12", adsorbate="nitrogen", temperature=77.355, **gen.DEFAULT_UNITS)
    piso = pygaps.PointIsotherm(pressure=list(P_all), loading=list(L_all), branch=marks, **kw)
    which = r.choice(["ads", "des"])
    route = r.choice(["from_pointisotherm", "model_iso", "dataframe"] + (["dataframe-unmarked"] * 2 if case["seed"] % 2 == 0 else []))
    # one model, or the best of a list of candidates: the branch asked for is the branch every candidate is fitted on
    marg = name
    if case["seed"] % 3 == 0 and route in ("from_pointisotherm", "model_iso"):
        marg = [name, "Henry" if name != "Henry" else "Langmuir"]
        ctx.count("branch", "best-of-list/" + which)
    if route == "dataframe-unmarked":
        # a recorded cycle without branch marks (adsorption up to the pressure maximum, then desorption), in a table whose row
        # labels are whatever the user's slicing / filtering left
        import pandas
        n_all = len(P_all)
        labels = r.choice([list(range(n_all)), list(range(6, 6 + n_all)), list(range(0, 2 * n_all, 2)), r.sample(range(100), n_all), ["r%d" % i for i in range(n_all)]])
        df = pandas.DataFrame({"pressure": P_all, "loading": L_all}, index=labels)
        ctx.count("branch", "unmarked-table/" + ("default-labels" if labels == list(range(n_all)) else "other-labels"))
        res = _call(pygaps.ModelIsotherm, isotherm_data=df, pressure_key="pressure", loading_key="loading", branch=which, model=name, **kw)
    elif route == "from_pointisotherm":
        res = _call(pygaps.ModelIsotherm.from_pointisotherm, piso, branch=which, model=marg)
    elif route == "model_iso":
        from pygaps.modelling import model_iso
        res = _call(model_iso, piso, branch=which, model=marg)
    else:
        df = piso.data_raw.copy()
        res = _call(pygaps.ModelIsotherm, isotherm_data=df, pressure_key=piso.pressure_key, loading_key=piso.loading_key, branch=which, model=name, **kw)
    ctx.case(["branch", route, which, name, case["seed"]])
    if res[0] != "ok":
        ctx.count("fit_refused", "branch/" + type(res[1]).__name__)
        ctx.trivial += 1
        return
    ctx.count("branch", route + "/" + which)
    ep, el = (p, l) if which == "ads" else (pd_, ld)
    for rec in ([x for x in _LOG if x["outcome"] == "ok"] if isinstance(marg, list) else [x for x in _LOG if x["outcome"] == "ok"][-1:]):
        if len(rec["pressure"]) != len(ep) or not numpy.array_equal(rec["pressure"], ep) or not numpy.array_equal(rec["loading"], el):
            ctx.violation("fit/branch-data", "the data used for the fit are not exactly the rows of the requested branch", route=route, branch=which, n_used=len(rec["pressure"]), n_branch=len(ep), models=marg)
            break
    # the error identity must also hold for data that arrive in descending order (desorption branch)
    _check_logged(ctx, res[1], res[1].model.name, ep, el)
    if res[1].branch != which:
        ctx.violation("fit/branch-label", "the model isotherm does not record the requested branch", got=res[1].branch, expected=which)
    if which == "ads":
        pred = numpy.asarray(res[1].loading_at(p), dtype=float)
        if float(numpy.max(numpy.abs(pred - l))) > 1e-5 * (l.max() - l.min()):
            ctx.violation("fit/branch-contaminated", "the adsorption-branch fit does not reproduce the exact adsorption data (other branch used?)", max_dev=float(numpy.max(numpy.abs(pred - l))))


def _run_from_model(case, ctx):
    import pygaps
    name = case["model"]
    r = gen.rng(case["seed"], "fm")
    P = _fit_params(name, r)
    units, ads, T = _ctx_for(name)
    if name not in ("DR", "DA", "BET"):
        units = gen.random_units(r, relative_ok=False, fraction_ok=False)
    Tst = T if units["temperature_unit"] == "K" else round(T - 273.15, 6)
    p = _grid_for(name, P, r, n=r.randint(8, 30))
    meta = {"user": "verif", "batch": 7}
    model = GM.make_model(name, P, pressure_range=(float(p.min()), float(p.max())), loading_range=(0.0, 1.0), temperature=T)
    mbranch = "des" if case["seed"] % 3 == 0 else "ads"  # (a model fitted to the desorption branch describes that branch)
    miso = pygaps.ModelIsotherm(model=model, branch=mbranch, material="verif-c12", adsorbate=ads, temperature=Tst, **units, **meta)
    # another isotherm of the same model class at another temperature, created afterwards: instances share nothing
    try:
        GM.make_model(name, _fit_params(name, gen.rng(case["seed"], "other")), temperature=T + 41.5)
    except Exception:
        pass
    hows = [("default-grid", {}), ("pressure-points", {"pressure_points": list(p)})]
    if units["pressure_mode"] == "absolute":
        # the pressures of a measured isotherm serve as the grid - one stored in the model isotherm's units, one in another unit
        # (whatever pressures that gives: the generated points lie on the model)
        try:
            ref_kw = dict(material="verif-c12-ref", adsorbate=ads, temperature=Tst, **units)
            ref_same = pygaps.PointIsotherm(pressure=list(p), loading=list(numpy.linspace(0.1, 1.0, len(p))), branch=mbranch, **ref_kw)
            ref_other = pygaps.PointIsotherm(pressure=list(p), loading=list(numpy.linspace(0.1, 1.0, len(p))), branch=mbranch, **ref_kw)
            ref_other.convert_pressure(mode_to="absolute", unit_to="kPa" if units["pressure_unit"] != "kPa" else "torr")
            hows += [("reference-isotherm/same-units", {"pressure_points": ref_same}), ("reference-isotherm/other-pressure-unit", {"pressure_points": ref_other})]
        except Exception:
            pass
    for how, kw in hows:
        res = _call(pygaps.PointIsotherm.from_modelisotherm, miso, **kw)
        ctx.case(["from_model", name, how, case["seed"]])
        if res[0] != "ok":
            ctx.violation("from_modelisotherm/raises", "generating a point isotherm from a model isotherm raised", exc=res[1], model=name, how=how)
            continue
        piso = res[1]
        ctx.count("from_model", how)
        ctx.count("from_model", "model-branch-" + mbranch)
        if not piso.has_branch(mbranch) or piso.has_branch("des" if mbranch == "ads" else "ads"):
            ctx.violation("from_modelisotherm/branch", "the generated points are not on the branch the model describes", model_branch=mbranch, marks=sorted(set(piso.data_raw["branch"].tolist())), how=how)
            continue
        pp, ll = piso.pressure(branch=mbranch), piso.loading(branch=mbranch)
        exp = numpy.asarray(model.loading(pp), dtype=float)
        # ... and on the published equation of that model at this isotherm's temperature (the model object is not its own judge)
        try:
            ref = numpy.array([float(GM.reference_loading(name, P, float(x), T)) for x in numpy.asarray(pp, dtype=float)])
        except Exception:
            ref = None
        if ref is not None and ref.shape == exp.shape:
            ctx.count("from_model", "published-equation-compared")
            if not numpy.allclose(ll, ref, rtol=1e-9, atol=1e-300):
                ctx.violation("from_modelisotherm/points-off-published-equation", "generated points do not lie on the model equation at the isotherm's temperature", model=name, got=ll[:4], expected=ref[:4], T=T)
        if not numpy.allclose(ll, exp, rtol=1e-12, atol=0):
            ctx.violation("from_modelisotherm/points-off-model", "generated points do not lie on the model", model=name, got=ll[:4], expected=exp[:4])
        if how == "pressure-points" and not numpy.allclose(pp, p, rtol=0, atol=0):
            ctx.violation("from_modelisotherm/pressure-points", "the requested pressure points were not used", got=pp[:4], expected=p[:4])
        if dict(piso.units) != dict(miso.units):
            ctx.violation("from_modelisotherm/units", "units differ from the model isotherm's", a=dict(miso.units), b=dict(piso.units))
        for k, v in meta.items():
            if piso.properties.get(k) != v:
                ctx.violation("from_modelisotherm/metadata", "metadata not kept", key_=k, got=piso.properties.get(k))
        if str(piso.material) != str(miso.material) or str(piso.adsorbate) != str(miso.adsorbate) or not close(piso.temperature, miso.temperature, 1e-12):
            ctx.violation("from_modelisotherm/identity", "material / adsorbate / temperature differ")
        # re-fitting returns the same curve
        if how == "pressure-points":
            del _LOG[:]
            rf = _call(pygaps.ModelIsotherm.from_pointisotherm, piso, model=name, branch=mbranch)
            ctx.case(["refit", name, case["seed"]])
            if rf[0] != "ok":
                if _is_calc(rf[1]):
                    ctx.count("fit_refused", name + "/refit")
                else:
                    ctx.violation("refit/raises/%s" % type(rf[1]).__name__, "re-fitting generated points raised", exc=rf[1], model=name, units=units)
                continue
            pred = numpy.asarray(rf[1].loading_at(p), dtype=float)
            rng = float(exp.max() - exp.min())
            if rng > 0 and float(numpy.max(numpy.abs(pred - exp))) > 1e-5 * rng:
                ctx.violation(_not_reproduced_key(name, rf[1], float(numpy.max(numpy.abs(pred - exp))), rng) if name == "JensenSeaton" else "refit/%s/curve-differs" % name, "re-fitting the generated points does not return the same curve", model=name, P=P, fitted=dict(rf[1].model.params), max_dev=float(numpy.max(numpy.abs(pred - exp))),
                              range=rng, units=units)
            # ... and the re-fitted model isotherm (which carries the metadata of the generated points, among it the note
            # which model they came from) is a model isotherm like any other: points generated from it lie on it
            again = _call(pygaps.PointIsotherm.from_modelisotherm, rf[1], pressure_points=p)
            ctx.case(["regenerate", name, case["seed"]])
            ctx.count("from_model", "regenerated-from-the-refitted-model")
            if again[0] != "ok":
                ctx.violation("from_modelisotherm/raises/refitted-model", "generating a point isotherm from a re-fitted model isotherm raised", exc=again[1], model=name, metadata=sorted(rf[1].properties))
            else:
                l2 = numpy.asarray(again[1].loading(branch=mbranch), dtype=float)
                if len(l2) != len(pred) or not numpy.allclose(l2, pred, rtol=1e-9, atol=1e-12 * (abs(pred).max() + 1)):
                    ctx.violation("from_modelisotherm/points-off-model/refitted-model", "points generated from the re-fitted model do not lie on it", model=name, got=l2[:4], expected=pred[:4])


def _run_covariance(case, ctx):
    import pygaps
    r = gen.rng(case["seed"], "cv")
    name = r.choice(["Henry", "Langmuir", "DSLangmuir", "Toth", "Freundlich", "TemkinApprox", "DR", "DA", "JensenSeaton"])
    P = _fit_params(name, r)
    units, ads, T = _ctx_for(name)
    fl = RU.fluid(gen.backend_of(ads))
    p = _grid_for(name, P, r, n=r.randint(10, 30))
    l = numpy.asarray(GM.make_model(name, P, temperature=T).loading(p), dtype=float)
    if not numpy.all(numpy.isfinite(l)) or l.max() <= l.min():
        return
    kw = dict(material="verif-c12", adsorbate=ads, temperature=T)
    base = pygaps.PointIsotherm(pressure=list(p), loading=list(l), branch="ads", **kw, **units)
    other = gen.copy_point(base)
    if name in ("DR", "DA"):
        change = "temperature"
        other.convert_temperature("°C")
        other.convert_loading(basis_to="molar", unit_to=r.choice(["mol", "mmol"]))
    else:
        change = r.choice(["pressure", "loading", "both", "temperature"])
        if change in ("pressure", "both"):
            # scale factors within 1e+-3: the optimiser works on raw parameter values, extreme unit choices
            # (Pa, kmol) push them to 1e-6..1e-10 where it is known to stall (tabulated in DESIGN.md, not judged)
            other.convert_pressure(mode_to="absolute", unit_to=r.choice(["kPa", "MPa", "mbar", "atm"]))
        if change in ("loading", "both"):
            other.convert_loading(basis_to=r.choice(["molar", "mass"]), unit_to=None) if False else other.convert_loading(**r.choice([{"basis_to": "molar", "unit_to": "mol"}, {"basis_to": "mass", "unit_to": "mg"}, {"basis_to": "mass", "unit_to": "g"}, {"basis_to": "molar", "unit_to": "kmol"}, {"basis_to": "mass", "unit_to": "kg"}]))
        if change == "temperature":
            other.convert_temperature("°C")
    ra = _call(pygaps.ModelIsotherm.from_pointisotherm, base, model=name)
    rb = _call(pygaps.ModelIsotherm.from_pointisotherm, other, model=name)
    ctx.case(["covariance", name, change, case["seed"]])
    if ra[0] != "ok" or rb[0] != "ok":
        if ra[0] == "ok" and rb[0] != "ok" and change == "temperature":
            ctx.violation("fit/unit-covariance/%s/refused-in-other-unit" % change, "data that fit in one unit set are refused in another", model=name, exc=rb[1], units=dict(other.units))
        else:
            ctx.count("fit_refused", "covariance/%s" % name)
            ctx.trivial += 1
        return
    ctx.count("covariance", name + "/" + change)
    pa = numpy.asarray(ra[1].loading_at(p), dtype=float)
    fp = RU.pressure_factor(units["pressure_mode"], units["pressure_unit"], other.pressure_mode, other.pressure_unit, fl, T)
    fln = RU.loading_factor(units["loading_basis"], units["loading_unit"], other.loading_basis, other.loading_unit, fl, T, "mass", "g")
    pb = numpy.asarray(rb[1].loading_at(p * fp), dtype=float) / fln
    rng = float(l.max() - l.min())
    dev_b = float(numpy.max(numpy.abs(pb - l)))
    if dev_b > 1e-5 * rng and float(rb[1].model.rmse) >= 0.05 * dev_b / rng:
        # the fit in the other unit set does not reproduce its (exact) data and says so: the 'exact' clause, same mechanism
        ctx.violation(_not_reproduced_key(name, rb[1], dev_b, rng), "a fit to data generated exactly from the same model does not reproduce the data", model=name, P=P, units=dict(other.units), max_dev=dev_b, range=rng,
                      fitted=dict(rb[1].model.params), rmse=float(rb[1].model.rmse))
        return
    # both fits reproduce the (exact) data in their own units, hence the curves must agree
    if float(numpy.max(numpy.abs(pa - l))) <= 1e-5 * rng and float(numpy.max(numpy.abs(pb - pa))) > 1e-4 * rng:
        ctx.violation("fit/unit-covariance/%s" % change, "expressing the data in other units changes the fitted curve by more than that unit change", model=name, P=P, units_a=dict(base.units), units_b=dict(other.units),
                      max_dev=float(numpy.max(numpy.abs(pb - pa))), range=rng, fitted_a=dict(ra[1].model.params), fitted_b=dict(rb[1].model.params))


def finalize(ctx):
    reasons = []
    if ctx.hooks.get("fit", 0) < 100:
        reasons.append("the fit hook recorded fewer than 100 successful fits")
    ok = ctx.tables.get("fit_ok", {})
    for n in GM.WELL_POSED_FIT:
        if ok.get(n, 0) < 3:
            reasons.append("fewer than 3 successful fits for %s" % n)
    if sum(ctx.tables.get("rmse_checked", {}).values()) < 100:
        reasons.append("rmse identity judged fewer than 100 times")
    for t, need in (("guess", 5), ("bounds", 10), ("branch", 10), ("from_model", 10), ("covariance", 10)):
        if sum(ctx.tables.get(t, {}).values()) < need:
            reasons.append("clause %s judged fewer than %d times" % (t, need))
    for label, (hit, tot) in ctx.reach.items():
        if tot and not hit:
            reasons.append("anchored function %s never entered" % label)
    return reasons
