"""C08 — the SQLite store behaves as a keyed collection over any operation history.

Every public call of pygaps.parsing.sqlite is recorded at the client boundary and compared
with a dictionary model; at every step the logical content of each database file is read
through an independent sqlite3 connection and compared with the model's content.
"""

import copy
import json
import os

import numpy

from pgverif import dbtools
from pgverif import gen
from pgverif import models as GM

LEVEL = "exploration"
RULE = (
    "case = one history of 5-40 operations (uploads with/without overwrite and auto-insert, deletions by object / name / id / "
    "retrieved object, retrievals with and without criteria, property-type operations) over one or two freshly copied database "
    "files with few keys (3 adsorbates, 3 materials, ~6 isotherms) so that collisions are frequent; many histories run in one "
    "process on purpose; evaluations = operations judged (outcome vs dictionary model + independent table dump + retrieved "
    "items); distinct = (operation, predicted outcome class, content digest before)"
)
ASSUMPTIONS = [
    "storable property values: floats, non-numeric text, booleans (isotherms); integers are stored in REAL columns and are "
    "tabulated separately",
    "the independent dump uses its own sqlite3 connection (read-only URI) on the same file",
    "isotherm branches are contiguous (adsorption rows then desorption rows with the maximum pressure last on the adsorption branch): "
    "branch marks are not a stored column, they are re-derived on retrieval",
]
NSHARDS = {"quick": 16, "thorough": 16}
TIMEOUT = {"quick": 240, "thorough": 3000}

ADS_NAMES = ["verif-gas-A", "verif-gas-B", "verif-gas-C"]
MAT_NAMES = ["verif-solid-X", "verif-solid-Y", "verif-solid-Z"]


def setup(ctx):
    dbtools.template()


def teardown(ctx):
    dbtools.cleanup()


def anchors():
    from pygaps.parsing import sqlite as s
    names = ["adsorbate_to_db", "adsorbates_from_db", "adsorbate_delete_db", "material_to_db", "materials_from_db", "material_delete_db", "isotherm_to_db", "isotherms_from_db", "isotherm_delete_db",
             "adsorbate_property_type_to_db", "material_property_type_to_db", "adsorbate_property_type_delete_db", "material_property_type_delete_db"]
    out = []
    for n in names:
        fn = getattr(s, n)
        out.append((n, getattr(fn, "__wrapped__", fn)))
    out.append(("with_connection", s.with_connection))
    return out


def gen_cases(tier, seed):
    r = gen.rng(seed, "c08")
    n = 120 if tier == "quick" else 8000
    for i in range(n):
        yield {"kind": "history", "seed": r.randrange(1 << 30), "files": 1 if i % 3 else 2, "length": r.randint(5, 40)}
    for n_mod in ([2, 3, 5] if tier == "quick" else [2, 2, 3, 3, 5, 8, 13, 40]):
        yield {"kind": "models", "seed": r.randrange(1 << 30), "n": n_mod}
    for n_iso in ([99, 100, 101, 130] if tier == "quick" else [1, 50, 99, 100, 101, 130, 199, 200, 201, 333, 1000]):
        yield {"kind": "bulk", "seed": r.randrange(1 << 30), "n": n_iso}


def run_case(case, ctx):
    ctx.count("case_kinds", case["kind"])
    if case["kind"] == "bulk":
        return _run_bulk(case, ctx)
    if case["kind"] == "models":
        return _run_models(case, ctx)
    _run_history(case, ctx)


def _run_models(case, ctx):
    """Several model isotherms in one file (also for one material / adsorbate pair): each comes back with its own model."""
    import pygaps
    from pygaps.parsing import sqlite as S
    r = gen.rng(case["seed"], "models")
    db = dbtools.fresh_db("models-%d" % case["seed"])
    mark = (len(pygaps.MATERIAL_LIST), len(pygaps.ADSORBATE_LIST))
    try:
        stored = []
        for i in range(case["n"]):
            name = r.choice(["Langmuir", "Henry", "Toth", "DSLangmuir"])
            m = GM.make_model(name, GM.random_params(name, r, typed=False), pressure_range=(0.01, 5.0), loading_range=(0.1, 9.0), rmse=0.01)
            iso = pygaps.ModelIsotherm(model=m, material="verif-models-M", adsorbate="nitrogen", temperature=round(200.0 + i, 1), **gen.DEFAULT_UNITS)
            out = _call(S.isotherm_to_db, iso, db_path=db, autoinsert_material=True, verbose=False)
            if out[0] != "ok":
                ctx.violation("models/upload-refused", "upload of a distinct model isotherm was refused", exc=out[1])
                return
            stored.append(iso)
        for crit in (None, {"material": "verif-models-M"}):
            out = _call(S.isotherms_from_db, criteria=crit, db_path=db, verbose=False)
            ctx.case(["models", case["n"], repr(crit)])
            ctx.count("retrieval_equality", "several-models")
            if out[0] != "ok":
                ctx.violation("models/retrieval-raises", "retrieval raised", exc=out[1])
                continue
            got = {i.iso_id: i for i in out[1]}
            missing = [s for s in stored if s.iso_id not in got]
            if missing or len(out[1]) != len(stored):
                ctx.violation("iso_get/retrieved-data-not-the-stored-data", "model isotherms stored together do not come back each with its own model", n_stored=len(stored), n_retrieved=len(out[1]),
                              n_not_found_by_id=len(missing), first_missing=missing[0].model.to_dict() if missing else None)
    finally:
        del pygaps.MATERIAL_LIST[mark[0]:]
        del pygaps.ADSORBATE_LIST[mark[1]:]
        try:
            os.unlink(db)
        except OSError:
            pass


def _run_bulk(case, ctx):
    """A store holding many isotherms: everything uploaded comes back, with and without criteria."""
    import pygaps
    from pygaps.parsing import sqlite as S
    from pygaps.core.baseisotherm import BaseIsotherm
    r = gen.rng(case["seed"], "bulk")
    n = case["n"]
    db = dbtools.fresh_db("bulk-%d" % case["seed"])
    mark = (len(pygaps.MATERIAL_LIST), len(pygaps.ADSORBATE_LIST))
    try:
        mats = ["verif-bulk-P", "verif-bulk-Q"]
        ids = {}
        for i in range(n):
            kw = dict(gen.DEFAULT_UNITS, material=mats[i % 2], adsorbate="nitrogen", temperature=round(100 + i * 0.25, 2))
            if i % 10 == 0:
                iso = pygaps.PointIsotherm(pressure=[0.1, 0.2 + i * 1e-3, 0.5], loading=[1.0, 2.0, 3.0 + i * 1e-3], branch="ads", **kw)
            else:
                iso = BaseIsotherm(**kw)
            out = _call(S.isotherm_to_db, iso, db_path=db, autoinsert_material=True, verbose=False)
            if out[0] != "ok":
                ctx.violation("bulk/upload-refused", "upload of a distinct isotherm into a large store was refused", i=i, exc=out[1])
                return
            ids[(mats[i % 2], round(100 + i * 0.25, 2))] = mats[i % 2]  # (what identifies an item here: material and temperature)
        raw = dbtools.dump(db)
        ctx.case(["bulk", n, "rows"])
        if len(raw["isotherms"]) != n:
            ctx.violation("bulk/rows-in-file", "the file does not hold one row per uploaded isotherm", rows=len(raw["isotherms"]), uploaded=n)
        for crit, exp in ((None, set(ids)), ({"material": mats[0]}, {k for k, v in ids.items() if v == mats[0]}), ({"material": mats[1], "adsorbate": "nitrogen"}, {k for k, v in ids.items() if v == mats[1]})):
            out = _call(S.isotherms_from_db, criteria=crit, db_path=db, verbose=False)
            ctx.case(["bulk", n, repr(crit)])
            ctx.count("bulk", "n=%d/%s" % (n, "all" if crit is None else "+".join(sorted(crit))))
            if out[0] != "ok":
                ctx.violation("bulk/retrieval-raises", "retrieval from a large store raised", n=n, criteria=crit, exc=out[1])
                continue
            got = {(str(i.material), round(float(i.temperature), 2)) for i in out[1]}
            if got != exp or len(out[1]) != len(exp):
                ctx.violation("bulk/retrieved-set", "what is retrieved from a large store is not what was uploaded", n=n, criteria=crit, retrieved=len(out[1]), expected=len(exp), missing=len(exp - got), unexpected=len(got - exp))
    finally:
        del pygaps.MATERIAL_LIST[mark[0]:]
        del pygaps.ADSORBATE_LIST[mark[1]:]
        try:
            os.unlink(db)
        except OSError:
            pass


# ------------------------------------------------------------------ items


def _ads_spec(r, k):
    props = {"formula": r.choice(["X_{2}", "YZ", "Q"]), "molar_mass": round(r.uniform(2, 200), 4), "comment_text": r.choice(["synthetic", "for tests", "ünï"])}
    if r.random() < 0.5:
        props["polarizability"] = round(r.uniform(0.1, 10), 5)
    if r.random() < 0.3:
        props["alias"] = [ADS_NAMES[k].lower() + "-alias"]
    if r.random() < 0.3:
        # a list-valued property in which a value repeats (stored one row per value: every row is content)
        props["fit_coefficients"] = r.choice([[4.25, 4.25, -7.75], [1.5, 2.5, 1.5, 2.5], [0.5, 0.5]])
    return {"name": ADS_NAMES[k], "props": props}


def _mat_spec(r, k):
    props = {}
    if r.random() < 0.8:
        props["density"] = round(r.uniform(0.2, 5), 4)
    if r.random() < 0.5:
        props["molar_mass"] = round(r.uniform(10, 900), 3)
    if r.random() < 0.5:
        props["batch_label"] = r.choice(["b-one", "b two", "третий"])
    return {"name": MAT_NAMES[k], "props": props}


def _iso_spec(r, variant):
    kind = r.choice(["point", "point", "point-des", "model", "base"])
    meta = {}
    for key in r.sample(["user", "lab", "project", "note", "flag", "reading", "count", "code", "degassed"], r.randint(0, 4)):
        meta[key] = {"degassed": r.choice(["True", "true", "false", "yes"]),  # (text, as typed into a form - not a boolean)
                     "user": "someone", "lab": "lab 7", "project": "p-x", "note": "texte libre", "flag": r.random() < 0.5, "reading": round(r.uniform(-5, 5), 4) + 0.0,  # (+0.0: no negative zero, SQLite does not keep its sign)
                     "count": r.randint(-3, 40), "code": str(r.randint(1, 99))}[key]
    spec = {"kind": kind, "material": r.choice(MAT_NAMES), "adsorbate": r.choice(ADS_NAMES), "temperature": round(r.uniform(70, 400), 2), "meta": meta, "variant": variant}
    if r.random() < 0.35:
        # stored in degrees Celsius (the value in the file is the one in the isotherm's own unit)
        spec["temperature_unit"] = "°C"
        spec["temperature"] = round(spec["temperature"] - 273.15, 2) if r.random() < 0.6 else 0.0  # (ice bath: a stored value of zero)
    if kind.startswith("point"):
        n = r.randint(2, 12)
        p, l, b = gen.point_data(r, n, two_branches=(kind == "point-des" and n >= 4))
        spec.update(pressure=p, loading=l, branch=b)
        if r.random() < 0.3:
            spec["extra"] = {"enthalpy": [round(r.uniform(5, 50), 4) for _ in p]}
    elif kind == "model":
        name = r.choice(["Langmuir", "Henry", "Toth", "DSLangmuir"])
        spec.update(model=name, params=GM.random_params(name, r, typed=False), prange=[0.01, 5.0], lrange=[0.1, 9.0], rmse=0.01)
    return spec


def _build_ads(spec):
    import pygaps
    return pygaps.Adsorbate(spec["name"], **copy.deepcopy(spec["props"]))


def _build_mat(spec):
    import pygaps
    return pygaps.Material(spec["name"], **copy.deepcopy(spec["props"]))


def _build_iso(spec):
    import pandas
    import pygaps
    from pygaps.core.baseisotherm import BaseIsotherm
    kw = dict(gen.DEFAULT_UNITS)
    kw.update(copy.deepcopy(spec["meta"]))
    kw.update(material=spec["material"], adsorbate=spec["adsorbate"], temperature=spec["temperature"])
    if spec.get("temperature_unit"):
        kw["temperature_unit"] = spec["temperature_unit"]
    if spec.get("big"):
        # a long (high-resolution / kinetic) recording: its upload dirties more pages than SQLite's page cache holds
        import numpy
        p = numpy.linspace(1e-6, 1.0, int(spec["big"])) * (1 + 1e-3 / 3)
        return pygaps.PointIsotherm(pressure=p, loading=numpy.sqrt(p) * 7 / 3, branch="ads", **kw)
    if spec["kind"].startswith("point"):
        cols = {"pressure": spec["pressure"], "loading": spec["loading"]}
        cols.update(spec.get("extra", {}))
        return pygaps.PointIsotherm(isotherm_data=pandas.DataFrame(cols), pressure_key="pressure", loading_key="loading", branch=[bool(x) for x in spec["branch"]], **kw)
    if spec["kind"] == "model":
        m = GM.make_model(spec["model"], spec["params"], pressure_range=tuple(spec["prange"]), loading_range=tuple(spec["lrange"]), rmse=spec["rmse"])
        return pygaps.ModelIsotherm(model=m, **kw)
    return BaseIsotherm(**kw)


# ------------------------------------------------------------------ dictionary model


def _same_number_other_type(a, b):
    """5 -> 5.0 or '7' -> 7.0: what a REAL-affinity column does to integers and numeric-looking text."""
    if isinstance(a, bool) or isinstance(b, bool) or type(a) is type(b):
        return False
    try:
        return float(a) == float(b)
    except (TypeError, ValueError):
        return False


def _stored(v, iso=False):
    """How a property value reads back from a REAL-affinity column."""
    if isinstance(v, bool):
        return ("TRUE" if v else "FALSE") if iso else float(v)
    if isinstance(v, (int, float)):
        return float(v)
    if isinstance(v, str):
        try:
            return float(v)  # numeric-looking text is converted by the column affinity as well
        except ValueError:
            return v
    return v


class Model:
    """Plain-dictionary model of one database file (same shape as dbtools.dump)."""
    def __init__(self, dump):
        self.d = copy.deepcopy(dump)

    def _props(self, props, iso=False):
        rows = []
        for k, v in props.items():
            for x in (v if isinstance(v, (list, tuple, set)) else [v]):
                rows.append([k, _stored(x, iso)])
        return sorted(rows, key=lambda tv: (tv[0], repr(tv[1])))

    def item_to_db(self, grp, name, props, overwrite, type_table):
        present = name in self.d[grp]
        if overwrite != present:
            return "refused"
        self.d[grp][name] = self._props(props)
        self.d["types"][type_table] = sorted(set(self.d["types"][type_table]) | set(props))
        return "ok"

    def item_delete(self, grp, name, ref_field):
        if name not in self.d[grp]:
            return "refused"
        if any(v[ref_field] == name for v in self.d["isotherms"].values()):
            return "refused"
        del self.d[grp][name]
        return "ok"

    def iso_to_db(self, iso_id, row, auto_m, auto_a, mat_spec, ads_spec):
        if iso_id in self.d["isotherms"]:
            return "refused"
        need_m = row["material"] not in self.d["materials"]
        need_a = row["adsorbate"] not in self.d["adsorbates"]
        if (need_m and not auto_m) or (need_a and not auto_a):
            return "refused"
        if need_m:
            self.item_to_db("materials", row["material"], mat_spec, False, "material_properties_type")
        if need_a:
            self.item_to_db("adsorbates", row["adsorbate"], ads_spec, False, "adsorbate_properties_type")
        self.d["isotherms"][iso_id] = row
        return "ok"

    def iso_delete(self, iso_id):
        if iso_id not in self.d["isotherms"]:
            return "refused"
        del self.d["isotherms"][iso_id]
        return "ok"


def _iso_row(iso):
    """The row a keyed collection would hold for this isotherm (dump format)."""
    import pygaps
    d = iso.to_dict()
    mat = d.pop("material")
    row = {"material": mat["name"] if isinstance(mat, dict) else mat, "adsorbate": d.pop("adsorbate"), "temperature": float(d.pop("temperature")), "props": [], "data": []}
    row["iso_type"] = "pointisotherm" if isinstance(iso, pygaps.PointIsotherm) else "modelisotherm" if isinstance(iso, pygaps.ModelIsotherm) else "isotherm"
    row["props"] = sorted([[k, _stored(v, True)] for k, v in d.items()], key=lambda tv: (tv[0], repr(tv[1])))
    if row["iso_type"] == "pointisotherm":
        data = [["pressure", "float", json.dumps(iso.pressure().tolist())], ["loading", "float", json.dumps(iso.loading().tolist())]]
        for k in iso.other_keys:
            data.append([k, "float", json.dumps(iso.other_data(k).tolist())])
        row["data"] = sorted(data, key=lambda tv: tv[0])
    elif row["iso_type"] == "modelisotherm":
        row["data"] = [["model", "dict", json.dumps(iso.model.to_dict())]]
    return row


# ------------------------------------------------------------------ history runner


def _call(fn, *a, **k):
    try:
        return ("ok", fn(*a, **k))
    except Exception as exc:
        return ("exc", exc)


def _is_parsing_error(exc):
    from pygaps.utilities.exceptions import ParsingError
    return isinstance(exc, ParsingError)


def _run_history(case, ctx):
    import pygaps
    from pygaps.parsing import sqlite as S
    r = gen.rng(case["seed"], "h")
    files = [dbtools.fresh_db("%d-%d" % (case["seed"], i)) for i in range(case["files"])]
    models = [Model(dbtools.dump(f)) for f in files]
    base_ads = set(models[0].d["adsorbates"])
    ads_specs = [_ads_spec(r, k) for k in range(3)]
    mat_specs = [_mat_spec(r, k) for k in range(3)]
    iso_specs = [_iso_spec(r, i) for i in range(6)]
    history = []
    uploaded = {}  # iso_id -> to_dict() at upload time (diagnostics)
    n_reg_m, n_reg_a = len(pygaps.MATERIAL_LIST), len(pygaps.ADSORBATE_LIST)
    try:
        for step in range(case["length"]):
            fi = r.randrange(len(files))
            db, model = files[fi], models[fi]
            before = copy.deepcopy(model.d)
            op = r.choice(["ads_to", "ads_to", "ads_del", "mat_to", "mat_to", "mat_del", "iso_to", "iso_to", "iso_to", "iso_del", "iso_del", "iso_get", "iso_get", "ads_get", "mat_get", "type_ops", "type_ops"])
            rec = {"op": op, "file": fi}
            expected = None
            extra_check = None
            if op == "ads_to":
                spec = r.choice(ads_specs)
                if r.random() < 0.3:
                    spec = dict(spec, props=dict(spec["props"], molar_mass=round(r.uniform(2, 200), 4)))
                    spec["props"].pop("polarizability", None)
                ow = r.random() < 0.35
                rec.update(name=spec["name"], overwrite=ow, props=spec["props"])
                a = _build_ads(spec)
                expected = model.item_to_db("adsorbates", spec["name"], a.to_dict() and {k: v for k, v in a.to_dict().items() if k != "name"}, ow, "adsorbate_properties_type")
                out = _call(S.adsorbate_to_db, a, db_path=db, overwrite=ow, verbose=False)
            elif op == "mat_to":
                spec = r.choice(mat_specs)
                if r.random() < 0.3:
                    spec = dict(spec, props={k: v for k, v in list(spec["props"].items())[:1]})
                ow = r.random() < 0.35
                rec.update(name=spec["name"], overwrite=ow, props=spec["props"])
                expected = model.item_to_db("materials", spec["name"], spec["props"], ow, "material_properties_type")
                known_before = sum(1 for m_ in pygaps.MATERIAL_LIST if m_.name == spec["name"])
                out = _call(S.material_to_db, _build_mat(spec), db_path=db, overwrite=ow, verbose=False)
                if ow and out[0] == "ok" and expected == "ok" and known_before <= 1:
                    # retrieval re-attaches the material a name resolves to in the session (recorded finding): an overwrite that
                    # succeeded must at least leave the *new* description there, not the one it replaced
                    now = [m_ for m_ in pygaps.MATERIAL_LIST if m_.name == spec["name"]]
                    ctx.case(["mat-overwrite-session", spec["name"], sorted(spec["props"])])
                    ctx.count("session_registry", "material-overwrite/checked")
                    if len(now) != 1 or dict(now[0].properties) != dict(spec["props"]):
                        ctx.violation("mat_to/overwrite/session-keeps-the-replaced-description", "after a successful overwrite the session still resolves the material's name to the description that was replaced",
                                      name=spec["name"], uploaded=spec["props"], session=[dict(m_.properties) for m_ in now])
            elif op == "ads_del":
                name = r.choice(ADS_NAMES + ["verif-gas-absent", ADS_NAMES[0].upper(), ADS_NAMES[1].lower()])  # (names are case-sensitive in the store)
                by_obj = r.random() < 0.5
                rec.update(name=name, by_object=by_obj)
                expected = model.item_delete("adsorbates", name, "adsorbate")
                out = _call(S.adsorbate_delete_db, pygaps.Adsorbate(name) if by_obj else name, db_path=db, verbose=False)
            elif op == "mat_del":
                name = r.choice(MAT_NAMES + ["verif-solid-absent", MAT_NAMES[0].upper(), MAT_NAMES[1].lower()])
                by_obj = r.random() < 0.5
                rec.update(name=name, by_object=by_obj)
                expected = model.item_delete("materials", name, "material")
                reg_before = [dict(m_.properties) for m_ in pygaps.MATERIAL_LIST if m_.name == name]
                out = _call(S.material_delete_db, pygaps.Material(name) if by_obj else name, db_path=db, verbose=False)
                if out[0] != "ok":
                    # a refused deletion changes nothing - in the file (judged below) nor in what the session resolves the name to
                    reg_after = [dict(m_.properties) for m_ in pygaps.MATERIAL_LIST if m_.name == name]
                    ctx.case(["mat-delete-refused-session", name, len(reg_before)])
                    ctx.count("session_registry", "material-delete-refused/checked")
                    if reg_after != reg_before:
                        ctx.violation("mat_del/refused/session-registry-changed", "a refused deletion removed (or changed) the material the session resolves the name to", name=name, before=reg_before, after=reg_after,
                                      exc=out[1])
            elif op == "iso_to":
                spec = r.choice(iso_specs)
                am, aa = r.random() < 0.7, r.random() < 0.7
                iso = _build_iso(spec)
                row = _iso_row(iso)
                rec.update(iso=spec["variant"], kind=spec["kind"], autoinsert_material=am, autoinsert_adsorbate=aa, material=spec["material"], adsorbate=spec["adsorbate"],
                           material_in_file=spec["material"] in model.d["materials"], adsorbate_in_file=spec["adsorbate"] in model.d["adsorbates"],
                           material_in_registry=any(m.name == spec["material"] for m in pygaps.MATERIAL_LIST), adsorbate_in_registry=any(a.name == spec["adsorbate"] for a in pygaps.ADSORBATE_LIST))
                mprops = dict(iso.material.properties)
                aprops = {k: v for k, v in iso.adsorbate.to_dict().items() if k != "name"}
                expected = model.iso_to_db(iso.iso_id, row, am, aa, mprops, aprops)
                out = _call(S.isotherm_to_db, iso, db_path=db, autoinsert_material=am, autoinsert_adsorbate=aa, verbose=False)
                if expected == "ok":
                    extra_check = ("uploaded", iso)
                    uploaded[iso.iso_id] = copy.deepcopy(iso.to_dict())
            elif op == "iso_del":
                how = r.choice(["object", "id", "retrieved", "absent"])
                rec.update(how=how)
                present = sorted(model.d["isotherms"])
                if how == "absent" or not present:
                    iso = _build_iso(_iso_spec(r, 99))
                    target = iso if r.random() < 0.5 else iso.iso_id
                    expected = model.iso_delete(iso.iso_id)
                    out = _call(S.isotherm_delete_db, target, db_path=db, verbose=False)
                elif how == "retrieved":
                    got = _call(S.isotherms_from_db, db_path=db, verbose=False)
                    if got[0] != "ok" or not got[1]:
                        continue
                    target = r.choice(got[1])
                    # the stored isotherm this object was rebuilt from
                    stored_id = _match_stored(target, model)
                    rec.update(stored_id=stored_id, retrieved_id=target.iso_id)
                    if stored_id is None:
                        continue
                    if stored_id != target.iso_id and stored_id in uploaded:
                        a, b = uploaded[stored_id], target.to_dict()
                        rec["id_differs_in"] = sorted(k for k in set(a) | set(b) if a.get(k) != b.get(k) or type(a.get(k)) is not type(b.get(k)))
                        rec["material_then_now"] = [a.get("material"), b.get("material")]
                        nt = [k for k in rec["id_differs_in"] if _same_number_other_type(a.get(k), b.get(k))]
                        # (material properties re-attached from the session registry may differ on top of it: the other recorded mechanism)
                        rec["number_type_only"] = bool(nt) and set(rec["id_differs_in"]) - set(nt) <= {"material"}
                    expected = model.iso_delete(stored_id)
                    out = _call(S.isotherm_delete_db, target, db_path=db, verbose=False)
                else:
                    iso_id = r.choice(present)
                    expected = model.iso_delete(iso_id)
                    spec = next((s for s in iso_specs if _build_iso(s).iso_id == iso_id), None)
                    target = _build_iso(spec) if (how == "object" and spec is not None) else iso_id
                    out = _call(S.isotherm_delete_db, target, db_path=db, verbose=False)
            elif op == "iso_get":
                temps = sorted({row["temperature"] for row in model.d["isotherms"].values()}) or [0.0]
                tc = r.choice(temps + [0.0, 0])
                crit = r.choice([None, None, {"material": r.choice(MAT_NAMES)}, {"adsorbate": r.choice(ADS_NAMES)}, {"material": r.choice(MAT_NAMES), "adsorbate": r.choice(ADS_NAMES)}, {"iso_type": "modelisotherm"},
                                 {"temperature": tc}, {"temperature": tc, "material": r.choice(MAT_NAMES)}])
                rec.update(criteria=crit)
                out = _call(S.isotherms_from_db, criteria=crit, db_path=db, verbose=False)
                expected = "ok"
                extra_check = ("retrieved", crit)
            elif op == "ads_get":
                out = _call(S.adsorbates_from_db, db_path=db, verbose=False)
                expected = "ok"
                extra_check = ("ads_retrieved", None)
            elif op == "mat_get":
                out = _call(S.materials_from_db, db_path=db, verbose=False)
                expected = "ok"
                extra_check = ("mat_retrieved", None)
            else:
                tname = r.choice(["verif-type-1", "verif-type-2", "density"])
                which = r.choice(["adsorbate", "material"])
                table = which + "_properties_type"
                if r.random() < 0.6:
                    # the type with all, some or none of its descriptive fields; as a new entry or as an overwrite ("done on ALL fields")
                    tdict = {"type": tname}
                    for fld, val in (("unit", r.choice(["m3", "kg/m3", "-"])), ("description", r.choice(["first text", "second text"]))):
                        if r.random() < 0.5:
                            tdict[fld] = val
                    present = tname in model.d["types"][table]
                    ow = r.random() < (0.6 if present else 0.15)
                    rec.update(sub="type_to_db", table=table, type=tname, fields=sorted(tdict), overwrite=ow)
                    fn = getattr(S, which + "_property_type_to_db")
                    if ow:
                        expected = "ok"  # (an UPDATE: with nothing to update it is a no-op, not an error)
                        if present and tname in model.d["type_rows"][table]:
                            model.d["type_rows"][table][tname] = [tdict.get("unit"), tdict.get("description")]
                    else:
                        expected = "refused" if present else "ok"
                        if expected == "ok":
                            model.d["types"][table] = sorted(model.d["types"][table] + [tname])
                            if tname.startswith("verif-"):
                                model.d["type_rows"][table][tname] = [tdict.get("unit"), tdict.get("description")]
                    out = _call(fn, tdict, db_path=db, overwrite=ow, verbose=False)
                else:
                    rec.update(sub="type_delete_db", table=table, type=tname)
                    fn = getattr(S, which + "_property_type_delete_db")
                    grp = which + "s"
                    used = any(t == tname for rows in model.d[grp].values() for t, _ in rows)
                    expected = "refused" if (tname not in model.d["types"][table] or used) else "ok"
                    if expected == "ok":
                        model.d["types"][table] = [t for t in model.d["types"][table] if t != tname]
                        model.d["type_rows"][table].pop(tname, None)
                    out = _call(fn, tname, db_path=db, verbose=False)
            rec["expected"] = expected
            rec["outcome"] = out[0] if out[0] == "ok" else type(out[1]).__name__
            history.append(rec)
            from pgverif.core import _h
            ctx.case([op, expected, rec.get("overwrite"), rec.get("how"), _h(before)[:8]])
            ctx.count("operations", "%s/%s" % (op, expected))
            _judge(ctx, rec, out, expected, model, before, db, extra_check, history)
            if ctx.violations and len(ctx.violations) > 40:
                break
            # resynchronise the model with the file so that one defect is reported once, not at every later step
            actual = dbtools.dump(db)
            if actual != model.d:
                model.d = actual
    finally:
        # leave the session registries as they were (the harness must not influence the next history -
        # what pyGAPS itself remembers from uploads is deliberately NOT undone inside a history)
        del pygaps.MATERIAL_LIST[n_reg_m:]
        del pygaps.ADSORBATE_LIST[n_reg_a:]
        for f in files:
            try:
                os.unlink(f)
            except OSError:
                pass
    if r.random() < 0.03:
        ctx.sample({"files": case["files"], "history": history[:12]})


def _match_stored(target, model):
    """Which stored id does a retrieved isotherm correspond to (by base fields + data)?"""
    row = _iso_row(target)
    for iid, stored in model.d["isotherms"].items():
        if stored["material"] == row["material"] and stored["adsorbate"] == row["adsorbate"] and abs(stored["temperature"] - row["temperature"]) < 1e-9 and stored["iso_type"] == row["iso_type"] and \
                [d[2] for d in stored["data"]] == [d[2] for d in row["data"]] and {tuple(p) for p in stored["props"]} <= {tuple(p) for p in row["props"]}:
            return iid
    return None


def _judge(ctx, rec, out, expected, model, before, db, extra_check, history):
    op = rec["op"]
    got = "ok" if out[0] == "ok" else "refused"
    tail = history[-5:]
    actual = dbtools.dump(db)
    if actual.get("orphans") or actual.get("fk_violations") or actual.get("integrity") != ["ok"]:
        ctx.violation("%s/structural-damage" % op, "the file contains orphan rows / foreign-key violations after the call", orphans=actual.get("orphans")[:4], fk=actual.get("fk_violations")[:4], rec=rec, history=tail)
    if got != expected:
        key = "%s/predicted-%s-but-%s" % (op, expected, got if got == "ok" else type(out[1]).__name__)
        if op == "iso_to" and expected == "ok" and got == "refused":
            # mechanism: auto-insert is decided by the session registries (MATERIAL_LIST / ADSORBATE_LIST), not by the file
            if (rec["autoinsert_material"] and not rec["material_in_file"] and rec["material_in_registry"]) or (rec["autoinsert_adsorbate"] and not rec["adsorbate_in_file"] and rec["adsorbate_in_registry"]):
                key = "iso_to/autoinsert-decided-by-session-registry-not-by-file"
        if op == "iso_to" and expected == "refused" and got == "ok":
            key = "iso_to/predicted-refused-but-ok"
        if op == "iso_del" and rec.get("number_type_only"):
            # the metadata value column has REAL affinity: integers and numeric-looking text come back as floats, the retrieved
            # isotherm has another identifier than the stored one and cannot be deleted through
            key = "iso_del/retrieved-id-differs/metadata-number-type-changed-by-REAL-column"
        if op == "iso_del" and rec.get("id_differs_in") == ["material"]:  # (outcome differs)
            # the isotherm id covers the material's *properties*, which are not part of the isotherm row: they are
            # re-attached on retrieval from whatever the session registry holds for that name
            key = "iso_del/retrieved-id-depends-on-material-properties-in-session-registry"
        ctx.violation(key, "outcome differs from the dictionary model", rec=rec, exc=out[1] if out[0] != "ok" else None, history=tail)
        # a refused operation must still leave the file alone
        if got == "refused" and actual != before:
            ctx.violation("%s/refused-but-file-changed" % op, "a refused operation changed the database file", diff=dbtools.diff_dump(before, actual), rec=rec)
        return
    if got == "refused":
        if not _is_parsing_error(out[1]):
            ctx.violation("%s/refused-with-%s" % (op, type(out[1]).__name__), "refusal is not a parsing error", exc=out[1], rec=rec)
        if actual != before:
            ctx.violation("%s/refused-but-file-changed" % op, "a refused operation changed the database file", diff=dbtools.diff_dump(before, actual), rec=rec)
        return
    if actual != model.d and op == "iso_del" and rec.get("id_differs_in") == ["material"]:
        # same mechanism: the retrieved object's id happens to be the id of *another* stored copy
        ctx.violation("iso_del/retrieved-id-depends-on-material-properties-in-session-registry", "deleting through a retrieved isotherm removed another stored isotherm", diff=dbtools.diff_dump(model.d, actual), rec=rec)
        return
    if actual != model.d:
        ctx.violation("%s/content-differs-from-model" % op, "file content after the call differs from what the dictionary model predicts", diff=dbtools.diff_dump(model.d, actual), rec=rec, history=tail)
        return
    if not extra_check:
        return
    from pygaps.parsing import sqlite as S
    what, arg = extra_check
    if what == "uploaded":
        iso = arg
        back = _call(S.isotherms_from_db, criteria={"material": str(iso.material), "adsorbate": str(iso.adsorbate)}, db_path=db, verbose=False)
        ctx.case(["retrieve-after-upload", rec.get("kind")])
        if back[0] != "ok":
            ctx.violation("iso_get/raises-after-upload/%s" % type(back[1]).__name__, "retrieval raised after a successful upload", exc=back[1], rec=rec)
            return
        same = [b for b in back[1] if b.iso_id == iso.iso_id]
        ctx.count("retrieval_equality", "judged")
        if not same:
            cand = [b for b in back[1] if _iso_row(b)["data"] == _iso_row(iso)["data"] and type(b) is type(iso)]
            key = "iso_get/retrieved-not-equal-to-stored"
            info = {}
            if cand:
                a = iso.to_dict()

                def _distance(c):
                    bb = c.to_dict()
                    return len(set(bb) ^ set(a)) + sum(1 for k in a if k in bb and (a[k] != bb[k] or type(a[k]) is not type(bb[k])))

                cand.sort(key=_distance)  # the stored copy of this isotherm is the closest one (there may be other data-less isotherms)
                b = cand[0].to_dict()
                extra_keys = sorted(set(b) - set(a))
                diff_keys = sorted(k for k in a if k in b and (a[k] != b[k] or type(a[k]) is not type(b[k])))
                info = {"extra_keys": extra_keys, "diff_keys": diff_keys, "missing_keys": sorted(set(a) - set(b))}
                if extra_keys == ["iso_type"] and not diff_keys and not info["missing_keys"]:
                    key = "iso_get/iso_type-column-returned-as-metadata"
                elif hasattr(iso, "data_raw") and list(iso.data_raw["branch"]) != list(cand[0].data_raw["branch"]):
                    key = "iso_get/branch-marks-not-stored"
                elif diff_keys and not extra_keys and not info["missing_keys"] and all(_same_number_other_type(a[k], b[k]) for k in diff_keys):
                    # REAL affinity of the metadata value column: 5 -> 5.0, '7' -> 7.0; the identifier covers the type
                    key = "iso_get/retrieved-not-equal/metadata-number-type-changed-by-REAL-column"
            ctx.violation(key, "an uploaded isotherm does not come back equal", rec=rec, **info)
    elif what == "retrieved":
        crit = arg or {}
        def _m(a, b):
            if isinstance(a, (int, float)) and isinstance(b, (int, float)) and not isinstance(a, bool) and not isinstance(b, bool):
                return float(a) == float(b)
            return str(a) == str(b)

        exp_ids = sorted(i for i, row in model.d["isotherms"].items() if all(_m(row.get(k), v) for k, v in crit.items()))
        got_rows = out[1]
        ctx.case(["retrieve", sorted(crit)])
        if len(got_rows) != len(exp_ids):
            ctx.violation("iso_get/criteria-selection", "the number of isotherms retrieved differs from the model", criteria=crit, got=len(got_rows), expected=len(exp_ids))
        else:
            # every stored isotherm comes back with *its own* data / model (the multiset of data blocks is the stored one)
            def _blk(rows):
                return sorted(json.dumps([[d[0], json.loads(d[2]) if isinstance(d[2], str) else d[2]] for d in row["data"]], sort_keys=True) for row in rows)
            try:
                exp_blocks = _blk([model.d["isotherms"][i] for i in exp_ids])
                got_blocks = _blk([_iso_row(b) for b in got_rows])
            except Exception as exc:
                ctx.error("c08: data-block comparison", exc)
                exp_blocks = got_blocks = None
            ctx.count("retrieval_equality", "data-blocks")
            if exp_blocks != got_blocks:
                ndiff = sum(1 for a, b in zip(exp_blocks or [], got_blocks or []) if a != b)
                ctx.violation("iso_get/retrieved-data-not-the-stored-data", "the isotherms retrieved do not carry the data / models that were stored", criteria=crit, n=len(got_rows), n_different=ndiff)
    elif what in ("ads_retrieved", "mat_retrieved"):
        grp = "adsorbates" if what == "ads_retrieved" else "materials"
        got_items = {}
        for it in out[1]:
            d = it.to_dict()
            name = d.pop("name")
            if what == "ads_retrieved" and name not in ADS_NAMES:
                continue
            got_items[name] = d
        exp = {k: v for k, v in model.d[grp].items() if (k in ADS_NAMES or k in MAT_NAMES)}
        ctx.case([what])
        if set(got_items) != set(exp):
            ctx.violation("%s/names" % what, "retrieved names differ from the model", got=sorted(got_items), expected=sorted(exp))
            return
        for name, rows in exp.items():
            d = got_items[name]
            flat = []
            for k, v in d.items():
                for x in (v if isinstance(v, (list, tuple)) else [v]):
                    flat.append([k, _stored(x)])
            flat = sorted(flat, key=lambda tv: (tv[0], repr(tv[1])))
            rows2 = [x for x in rows]
            if what == "ads_retrieved":
                # the name itself is always an alias
                flat = [x for x in flat if not (x[0] == "alias" and x[1] == name.lower())]
                rows2 = [x for x in rows if not (x[0] == "alias" and x[1] == name.lower())]
            if flat != rows2:
                ctx.violation("%s/content" % what, "a retrieved item differs from what was stored", name=name, got=flat, expected=rows2)


def finalize(ctx):
    reasons = []
    ops = ctx.tables.get("operations", {})
    if sum(ops.values()) < 800:
        reasons.append("fewer than 800 operations judged")
    for need in ("ads_to/ok", "ads_to/refused", "mat_to/ok", "mat_to/refused", "iso_to/ok", "iso_to/refused", "iso_del/ok", "iso_del/refused", "ads_del/ok", "ads_del/refused", "mat_del/ok", "mat_del/refused"):
        if ops.get(need, 0) < 3:
            reasons.append("operation class %s exercised fewer than 3 times" % need)
    for label, (hit, tot) in ctx.reach.items():
        if tot and not hit:
            reasons.append("anchored function %s never entered" % label)
    return reasons
