"""C18 — kernel (DFT) fitting is non-negative and reproduces the isotherm.

Hook on the name ``bspline`` inside psd_kernel: it receives the un-smoothed distribution the
SLSQP fit produced (the public result only carries the smoothed curve).
"""

import math
import os
import shutil
import tempfile

import numpy

from pgverif import gen
from pgverif import probes
from pgverif.core import close
from pgverif.core import repo_root

LEVEL = "exploration"
RULE = (
    "case = (kernel [shipped or a user kernel file], non-negative sparse or dense weight vector, pressure grid inside the "
    "kernel's range, spline order 0-3, pressure limits); the isotherm is the exact weighted sum of kernel isotherms; "
    "evaluations = checks on the result (non-negativity of raw weights and distribution, kernel-weighted sum = reported "
    "fitted isotherm, fit matches the input, cumulative = running integral and non-decreasing, points outside the limits "
    "have no influence, out-of-range pressures refused); distinct = (kernel, weight digest, grid digest, order)"
)
ASSUMPTIONS = [
    "kernel isotherms are re-interpolated independently (cubic, with the zero row) from the kernel CSV file",
    "fit-vs-input tolerance 1e-9 x max loading (the non-negative least squares fit of the repaired tree reproduces every exact combination to 1e-15 x max loading; see table fit_deviation_decade)",
]
NSHARDS = {"quick": 16, "thorough": 16}
TIMEOUT = {"quick": 280, "thorough": 3300}

_CAP = []
_HANDLES = []
_TMP = None
_KCACHE = {}


def setup(ctx):
    global _TMP
    from pygaps.characterisation import psd_kernel
    _TMP = tempfile.mkdtemp(prefix="pgverif-c18-")

    def before(args, kwargs):
        _CAP.append({"widths": numpy.array(args[0], dtype=float), "dist": numpy.array(args[1], dtype=float), "degree": kwargs.get("degree")})
        ctx.hook("bspline")
        return None

    _HANDLES.append(probes.wrap(psd_kernel, "bspline", before=before))


def teardown(ctx):
    for h in _HANDLES:
        h.restore()
    if _TMP:
        shutil.rmtree(_TMP, ignore_errors=True)


def anchors():
    from pygaps.characterisation import psd_kernel as pk
    return [("psd_dft", pk.psd_dft), ("psd_dft_kernel_fit", pk.psd_dft_kernel_fit), ("_load_kernel", pk._load_kernel)]


def gen_cases(tier, seed):
    r = gen.rng(seed, "c18")
    n = 40 if tier == "quick" else 2400
    for i in range(n):
        yield {"kind": "fit", "seed": r.randrange(1 << 30), "order": i % 4, "weights": ["sparse", "dense", "sparse-with-first", "single", "decades", "blank"][(i // 4) % 6], "kernel": "shipped" if i % 5 else "user", "entry": ["raw", "isotherm"][i % 2]}
    # kernels with as few pore widths as the spline order (or fewer)
    for rep in range(1 if tier == "quick" else 12):
        for nwk, order in ((2, 0), (2, 1), (2, 2), (2, 3), (3, 2), (3, 3), (4, 3)):
            yield {"kind": "fit", "seed": r.randrange(1 << 30), "order": order, "weights": "dense", "kernel": "user", "entry": ["raw", "isotherm"][(nwk + order + rep) % 2], "nw": nwk}
    for i in range(18 if tier == "quick" else 300):
        yield {"kind": "limits", "seed": r.randrange(1 << 30), "narrow": [None, 1, None, 2, None, 3][i % 6]}
    for i in range(24 if tier == "quick" else 400):
        yield {"kind": "range", "seed": r.randrange(1 << 30)}
    for i in range(4 if tier == "quick" else 100):
        yield {"kind": "two_kernels", "seed": r.randrange(1 << 30)}
    for i in range(6 if tier == "quick" else 120):
        yield {"kind": "repaired_kernel", "seed": r.randrange(1 << 30), "damage": ["bad-cell", "repeated-row", "bad-cell-late"][i % 3]}


def run_case(case, ctx):
    ctx.count("case_kinds", case["kind"])
    del _CAP[:]
    globals()["_run_" + case["kind"]](case, ctx)


def _call(fn, *a, **k):
    try:
        with numpy.errstate(all="ignore"):
            return ("ok", fn(*a, **k))
    except Exception as exc:
        return ("exc", exc)


def shipped_kernel_path():
    return os.path.join(repo_root(), "src", "pygaps", "data", "kernels", "DFT-N2-77K-carbon-slit.csv")


def load_kernel(path):
    """Independent loader: {widths, pressures, interpolators} (cubic, zero row prepended)."""
    if path in _KCACHE:
        return _KCACHE[path]
    import pandas
    from scipy.interpolate import interp1d
    raw = pandas.read_csv(path, index_col=0)
    P = numpy.concatenate([[0.0], raw.index.values.astype(float)])
    widths = numpy.array([float(c) for c in raw.columns])
    funs = [interp1d(P, numpy.concatenate([[0.0], raw[c].values.astype(float)]), kind="cubic") for c in raw.columns]
    k = {"widths": widths, "pmin": float(raw.index.values.min()), "pmax": float(raw.index.values.max()), "funs": funs}
    _KCACHE[path] = k
    return k


def user_kernel(r, tag, directory=None, name=None, nw=None):
    """A small synthetic kernel written to a temporary file: Langmuir-like isotherms, one per pore width."""
    nw = nw or (r.randint(5, 9) if r.random() < 0.7 else r.choice([2, 3, 4]))  # (also kernels with no more pore widths than the spline order)
    wmax = r.choice([5.0, 5.0, 25.0, 120.0])  # (kernels reaching into the mesopores: widths of 10 nm and more, 100 nm and more)
    widths = sorted(round(gen.log_uniform(r, 0.5, wmax), 2) for _ in range(nw))
    widths = [round(w + 0.01 * i, 2) for i, w in enumerate(widths)]
    P = numpy.exp(numpy.linspace(math.log(1e-6), math.log(0.95), 60))
    d = directory or os.path.join(_TMP, "k-%s" % tag)
    os.makedirs(d, exist_ok=True)
    path = os.path.join(d, name or ("kernel-%s.csv" % tag))
    with open(path, "w") as fh:
        fh.write("," + ",".join("%.4g" % w for w in widths) + "\n")
        for p in P:
            row = [20.0 / w * (p * (50.0 / w**2)) / (1 + p * (50.0 / w**2)) + 3 * p * w for w in widths]
            fh.write("%.8g," % p + ",".join("%.8g" % x for x in row) + "\n")
    return path


def _weights(r, nw, kind):
    w = numpy.zeros(nw)
    if kind == "dense":
        w = numpy.array([r.uniform(0.0, 0.05) for _ in range(nw)])
    elif kind == "decades":
        # contributions spanning six orders of magnitude (a trace of small pores beside dominant large ones)
        w = numpy.array([10**r.uniform(-7, -1) for _ in range(nw)])
    elif kind == "single":
        w[r.randrange(nw)] = r.uniform(0.05, 0.5)
    else:
        for i in r.sample(range(nw), min(nw, r.randint(1, 10))):
            w[i] = r.uniform(0.01, 0.3)
        if kind == "sparse-with-first":
            w[0] = r.uniform(0.05, 0.3)
    return w


def _grid(r, k, n=None):
    n = n or (r.randint(20, 150) if r.random() < 0.65 else r.randint(6, 40))  # (a third of the grids are short: fewer points than unknowns)
    lo, hi = k["pmin"] * 1.001, k["pmax"] * 0.999
    p = numpy.exp(numpy.linspace(math.log(lo), math.log(hi), n)) if r.random() < 0.7 else numpy.linspace(lo, hi, n)
    return p


def _synth(k, w, p):
    return sum(wi * f(p) for wi, f in zip(w, k["funs"]) if wi)


def _run_fit(case, ctx):
    import pygaps
    from pygaps.characterisation import psd_kernel as pk
    r = gen.rng(case["seed"], "fit")
    path = shipped_kernel_path() if case["kernel"] == "shipped" else user_kernel(r, str(case["seed"]), nw=case.get("nw"))
    k = load_kernel(path)
    nw = len(k["widths"])
    w = _weights(r, nw, case["weights"])
    p = _grid(r, k)
    n = _synth(k, w, p)
    if case["seed"] % 4 == 0 and len(p) >= 4:
        # another recording was fitted with the same kernel just before: same number of points, same first and last pressure,
        # other pressures in between (the same set points approached on a linear instead of a logarithmic ramp)
        p_alt = numpy.linspace(p[0], p[-1], len(p))
        if numpy.allclose(p_alt, p):
            p_alt = numpy.exp(numpy.linspace(math.log(p[0]), math.log(p[-1]), len(p)))
        p_alt[0], p_alt[-1] = p[0], p[-1]
        _call(pk.psd_dft_kernel_fit, p_alt, _synth(k, w, p_alt), path, 0)
        ctx.count("fits", "preceded-by-a-fit-on-another-grid-with-the-same-ends")
    if case["weights"] == "blank":
        # a blank run (non-porous sample, empty cell): all weights zero is a non-negative combination too
        n = numpy.zeros(len(p))
    elif numpy.max(n) <= 0:
        return
    order = case["order"]
    from pgverif.core import _h
    dg = _h([case["kernel"], list(numpy.round(w, 6)), len(p), order])
    exact = True
    n_arg = n
    if case["seed"] % 5 == 3 and case["weights"] != "blank":
        # whole-number readings in an integer column: no longer an exact combination (not judged as one), but still data whose
        # reported fit is the kernel-weighted sum of the reported distribution
        n_arg = numpy.rint(n / numpy.max(n) * 500).astype(numpy.int64)
        n = n_arg.astype(float)
        exact = False
        ctx.count("fits", "integer-typed-loadings/%s" % case["entry"])
    if case["entry"] == "isotherm":
        iso = pygaps.PointIsotherm(pressure=list(p), loading=n_arg if not exact else list(n), branch="ads", material="verif-c18", adsorbate="nitrogen", pressure_mode="relative", pressure_unit=None,
                                   **dict({kk: v for kk, v in gen.DEFAULT_UNITS.items() if not kk.startswith("pressure")}, **gen.temp_kw(77.355)))
        res = _call(pk.psd_dft, iso, kernel=path if case["kernel"] == "user" else "DFT-N2-77K-carbon-slit", bspline_order=order)
    else:
        # "any pressure grid": the raw entry point takes the points in whatever order they were recorded (paired)
        how = ["ascending", "descending", "shuffled", "ascending"][case["seed"] % 4]
        if how == "descending":
            p, n, n_arg = p[::-1].copy(), n[::-1].copy(), n_arg[::-1].copy()
        elif how == "shuffled":
            idx = list(range(len(p)))
            r.shuffle(idx)
            if idx[0] < idx[-1]:
                idx = idx[::-1]  # (starts higher than it ends)
            p, n, n_arg = p[idx], n[idx], n_arg[idx]
        ctx.count("raw_grid_order", how)
        res = _call(pk.psd_dft_kernel_fit, p, n_arg, path, order)
    ctx.case(["fit", dg])
    from pygaps.utilities.exceptions import CalculationError
    if res[0] != "ok":
        # (a refusal is not a match either: the data are an exact combination inside the kernel's range)
        ctx.violation("psd_dft/raises/%s" % type(res[1]).__name__, "kernel fitting raised on an exact kernel combination inside the kernel range", exc=res[1], kernel=case["kernel"], order=order)
        return
    if case["entry"] == "isotherm":
        widths, dist, cum, fitted = res[1]["pore_widths"], res[1]["pore_distribution"], res[1]["pore_volume_cumulative"], res[1]["kernel_loading"]
    else:
        widths, dist, cum, fitted = res[1]
    widths, dist, cum, fitted = (numpy.asarray(x, dtype=float) for x in (widths, dist, cum, fitted))
    ctx.count("fits", "%s/order-%d/%s/%s" % (case["kernel"], order, case["weights"], case["entry"]))
    if not _CAP:
        ctx.violation("bspline-hook/not-reached", "the fit returned but the smoothing hook saw nothing")
        return
    cap = _CAP[-1]
    raw_w = cap["dist"] * numpy.ediff1d(cap["widths"], to_begin=cap["widths"][0])
    key = "psd_dft_kernel_fit"
    if not (numpy.all(numpy.isfinite(dist)) and numpy.all(numpy.isfinite(cum)) and numpy.all(numpy.isfinite(fitted))):
        ctx.violation(key + "/non-finite-result", "the reported distribution / cumulative volume / fitted isotherm contains NaN or infinity", order=order, weights=case["weights"], dist=dist[:4], cum=cum[:4])
        return
    # (1) non-negativity
    if numpy.any(raw_w < -1e-9 * (numpy.max(numpy.abs(raw_w)) + 1e-300)):
        ctx.violation(key + "/negative-weights", "the fitted kernel weights are negative", min=float(raw_w.min()))
    if numpy.any(dist < -1e-9 * (numpy.max(numpy.abs(dist)) + 1e-300)):
        ctx.violation(key + "/negative-distribution", "the reported pore-size distribution is negative", min=float(dist.min()), order=order)
    if not numpy.allclose(cap["widths"], k["widths"], rtol=1e-12):
        ctx.violation(key + "/kernel-widths", "the pore widths used are not those of the requested kernel", got=cap["widths"][:4], expected=k["widths"][:4], kernel=case["kernel"])
        return
    # (2) kernel-weighted sum of the un-smoothed distribution == reported fitted isotherm
    mine = _synth(k, raw_w, p)
    scale = float(numpy.max(numpy.abs(n)))
    if not numpy.allclose(mine, fitted, rtol=1e-9, atol=1e-9 * scale):
        ctx.violation(key + "/weighted-sum-vs-kernel_loading", "the kernel-weighted sum of the fitted distribution is not the reported fitted isotherm", max_dev=float(numpy.max(numpy.abs(mine - fitted))), scale=scale)
    # (3) the fit reproduces an exact combination
    dev = float(numpy.max(numpy.abs(fitted - n)))
    ctx.count("fit_quality", "dev<=%s" % ("1e-3" if dev <= 1e-3 * scale else "5e-3" if dev <= 5e-3 * scale else "2e-2" if dev <= 2e-2 * scale else "worse"))
    ctx.count("fit_deviation_decade", "1e%d x max loading" % (int(math.floor(math.log10(dev / scale))) if dev > 0 and scale > 0 else -99))
    if exact and dev > 1e-9 * scale:
        ctx.violation(key + "/fit-does-not-reproduce-input", "an exact non-negative combination of kernel isotherms is not reproduced within the optimiser tolerance", max_dev=dev, scale=scale, kernel=case["kernel"],
                      weights=case["weights"], npoints=len(p))
    # (4) reported curve: order 0 returns the un-smoothed distribution itself
    if order == 0:
        if not (numpy.allclose(widths, cap["widths"]) and numpy.allclose(dist, cap["dist"], rtol=1e-12, atol=0)):
            ctx.violation(key + "/order-0-not-as-is", "spline order 0 does not return the fitted distribution as it is")
        rep = _synth(k, dist * numpy.ediff1d(widths, to_begin=widths[0]), p)
        if not numpy.allclose(rep, fitted, rtol=1e-9, atol=1e-9 * scale):
            ctx.violation(key + "/reported-distribution-vs-kernel_loading", "the kernel-weighted sum of the reported distribution (x width increments) is not the reported fitted isotherm", max_dev=float(numpy.max(numpy.abs(rep - fitted))))
    dw = numpy.ediff1d(widths, to_begin=widths[0])
    if not numpy.allclose(cum, numpy.cumsum(dist * dw), rtol=1e-9, atol=1e-12 * (abs(cum[-1]) + 1)):
        ctx.violation(key + "/cumulative-not-running-integral", "the cumulative pore volume is not the running integral of the reported distribution", got=cum[:3], expected=numpy.cumsum(dist * dw)[:3])
    if numpy.any(numpy.diff(cum) < -1e-9 * (abs(cum[-1]) + 1e-300)):
        ctx.violation(key + "/cumulative-decreases", "the cumulative pore volume decreases", order=order)
    if order == 0 and not close(float(cum[-1]), float(numpy.sum(raw_w)), 1e-9, 1e-12):
        ctx.violation(key + "/total-volume", "the total cumulative volume is not the sum of the fitted weights", got=float(cum[-1]), expected=float(numpy.sum(raw_w)))
    if r.random() < 0.05:
        ctx.sample({"kernel": case["kernel"], "order": order, "weights": case["weights"], "npoints": len(p), "max_dev_rel": (dev / scale) if scale else 0.0, "nonzero_true": int(numpy.count_nonzero(w)), "nonzero_fitted": int(numpy.count_nonzero(raw_w > 1e-9))})


def _run_limits(case, ctx):
    """Only points inside the requested pressure limits influence the result."""
    import pygaps
    from pygaps.characterisation import psd_kernel as pk
    r = gen.rng(case["seed"], "lim")
    path = shipped_kernel_path()
    k = load_kernel(path)
    w = _weights(r, len(k["widths"]), "sparse")
    p = _grid(r, k, n=r.randint(40, 90))
    n = _synth(k, w, p)
    i0, i1 = r.randint(3, 10), len(p) - r.randint(3, 10)
    narrow = case.get("narrow")
    if narrow:
        # a window holding one, two or three points (the fit needs at least three... whatever it does, points outside stay outside)
        i0 = r.randint(3, len(p) - 12)
        i1 = i0 + narrow - 1
    lims = (float((p[i0 - 1] + p[i0]) / 2), float((p[i1] + p[i1 + 1]) / 2))
    side = "both" if narrow else ["both", "lower-only", "upper-only"][case["seed"] % 3]
    if side == "lower-only":
        lims, i1 = (lims[0], None), len(p) - 1
    elif side == "upper-only":
        lims, i0 = (None, lims[1]), 0
    ctx.count("limits", "limits-given/" + side)
    if case["seed"] % 2 and not narrow and side != "lower-only":
        # the measurement went beyond the kernel's pressure range; the limits leave those points out
        extra_p = numpy.array([min(0.9995, k["pmax"] * 1.0015), 0.9999])
        p = numpy.concatenate([p, extra_p])
        n = numpy.concatenate([n, [n[-1] * 1.2, n[-1] * 1.5]])
        ctx.count("limits", "points-beyond-the-kernel-range-outside-the-limits")
    kw = dict(material="verif-c18", adsorbate="nitrogen", pressure_mode="relative", pressure_unit=None, **dict({kk: v for kk, v in gen.DEFAULT_UNITS.items() if not kk.startswith("pressure")}, **gen.temp_kw(77.355)))
    order = r.randint(0, 3)
    a = _call(pk.psd_dft, pygaps.PointIsotherm(pressure=list(p), loading=list(n), branch="ads", **kw), p_limits=lims, bspline_order=order)
    n2 = n.copy()
    n2[:i0] = n2[:i0] * r.uniform(0.2, 0.8)
    n2[i1 + 1:] = n2[i1 + 1:] * r.uniform(1.2, 3.0) + 1.0
    b = _call(pk.psd_dft, pygaps.PointIsotherm(pressure=list(p), loading=list(n2), branch="ads", **kw), p_limits=lims, bspline_order=order)
    c = _call(pk.psd_dft_kernel_fit, p[i0:i1 + 1], n[i0:i1 + 1], path, order)
    ctx.case(["limits", case["seed"]])
    ctx.count("limits", "judged")
    if narrow:
        ctx.count("limits", "narrow-window-%d-points/%s" % (i1 - i0 + 1, a[0] if a[0] == "ok" else type(a[1]).__name__))
        if a[0] != b[0] or (a[0] == "exc" and type(a[1]) is not type(b[1])):
            ctx.violation("psd_dft/points-outside-limits-influence-result", "changing points outside a narrow pressure window changes the kind of outcome", a=repr(a[1])[:120], b=repr(b[1])[:120])
            return
        if a[0] != "ok":
            return
    if c[0] == "ok" and (a[0] != "ok" or b[0] != "ok"):
        # the points inside the limits can be fitted on their own: what lies outside may not decide whether there is a result
        bad = a if a[0] != "ok" else b
        ctx.violation("psd_dft/points-outside-limits-influence-result", "the analysis with limits is refused although the points inside the limits can be fitted", exc=bad[1], limits=lims, p_last=float(p[-1]),
                      kernel_pmax=k["pmax"])
        return
    if a[0] != "ok" or b[0] != "ok" or c[0] != "ok":
        ctx.count("refusals", "limits-case")
        return
    if tuple(a[1]["limits"]) != (i0, i1):
        ctx.violation("psd_dft/limits-window", "the analysed window is not exactly the points inside the limits", got=a[1]["limits"], expected=[i0, i1])
        return
    for kk in ("pore_distribution", "pore_volume_cumulative", "kernel_loading"):
        if not numpy.array_equal(numpy.asarray(a[1][kk]), numpy.asarray(b[1][kk])):
            ctx.violation("psd_dft/points-outside-limits-influence-result", "changing points outside the pressure limits changes the result", field=kk)
            return
    if not numpy.allclose(a[1]["pore_distribution"], c[1][1], rtol=1e-9, atol=1e-12):
        ctx.violation("psd_dft/limits-vs-raw", "the result with limits differs from fitting only the points inside them")


def _run_range(case, ctx):
    """Pressures outside the kernel's range are refused with a calculation error."""
    from pygaps.characterisation import psd_kernel as pk
    from pygaps.utilities.exceptions import CalculationError
    r = gen.rng(case["seed"], "rng")
    path = shipped_kernel_path() if r.random() < 0.6 else user_kernel(r, "r%d" % case["seed"])
    k = load_kernel(path)
    w = _weights(r, len(k["widths"]), "sparse")
    p = _grid(r, k, n=30)
    n = _synth(k, w, p)
    which = r.choice(["above", "negative"])
    p2 = p.copy()
    if which == "above":
        # by anything from one unit in the last place to 50 %
        excess = r.choice(["ulp", 1e-12, 1e-9, 1e-7, 3e-6, 9e-6, r.uniform(1e-4, 0.5), r.uniform(1e-4, 0.5)])
        p2[-1] = float(numpy.nextafter(k["pmax"], 2.0)) if excess == "ulp" else k["pmax"] * (1 + excess)
        ctx.count("range", "above by %s" % (excess if isinstance(excess, str) else "1e%d" % math.floor(math.log10(excess))))
    else:
        p2[0] = -abs(p2[0])
    # the offending reading may sit anywhere in the recording (an overshoot in the middle of a run, a run recorded downwards)
    arrangement = r.choice(["at-the-end", "in-the-middle", "descending"])
    bad_i = len(p2) - 1 if which == "above" else 0
    if arrangement == "in-the-middle":
        j = len(p2) // 2
        p2[[bad_i, j]] = p2[[j, bad_i]]
        n = numpy.array(n, dtype=float)
        n[[bad_i, j]] = n[[j, bad_i]]
    elif arrangement == "descending":
        p2, n = p2[::-1].copy(), numpy.array(n, dtype=float)[::-1].copy()
    ctx.count("range", "offending-point-" + arrangement)
    res = _call(pk.psd_dft_kernel_fit, p2, n, path, 2)
    ctx.case(["range", which, case["seed"]])
    ctx.count("range", which)
    if res[0] == "ok":
        ctx.violation("psd_dft_kernel_fit/out-of-range-not-refused", "a pressure outside the kernel's range was accepted", which=which, p=[float(p2[0]), float(p2[-1])], kernel_range=[0.0, k["pmax"]])
    elif not isinstance(res[1], CalculationError):
        ctx.violation("psd_dft_kernel_fit/out-of-range-wrong-error", "a pressure outside the kernel's range was refused with %s instead of a calculation error" % type(res[1]).__name__, exc=res[1])


def _run_two_kernels(case, ctx):
    """Loaded kernels are cached: the cache must be invisible (two user kernels with the same file name)."""
    from pygaps.characterisation import psd_kernel as pk
    r = gen.rng(case["seed"], "two")
    pa = user_kernel(r, "a%d" % case["seed"], name="kernel.csv")
    pb = user_kernel(r, "b%d" % case["seed"], name="kernel.csv")
    order_of_use = [shipped_kernel_path(), pa, pb, pa]
    for path in order_of_use:
        k = load_kernel(path)
        w = _weights(r, len(k["widths"]), "sparse")
        p = _grid(r, k, n=40)
        n = _synth(k, w, p)
        del _CAP[:]
        res = _call(pk.psd_dft_kernel_fit, p, n, path, 0)
        ctx.case(["two-kernels", os.path.basename(os.path.dirname(path))])
        ctx.count("two_kernels", "judged")
        if res[0] != "ok":
            ctx.count("refusals", "two-kernels")
            continue
        if not _CAP or len(_CAP[-1]["widths"]) != len(k["widths"]) or not numpy.allclose(_CAP[-1]["widths"], k["widths"]):
            ctx.violation("psd_dft_kernel_fit/kernel-cache-visible", "the pore widths used are not those of the requested kernel file (a previously loaded kernel was reused)", requested=path, got=_CAP[-1]["widths"][:4] if _CAP else None,
                          expected=k["widths"][:4])
            return


def _run_repaired_kernel(case, ctx):
    """A user kernel file that could not be loaded the first time (a damaged cell, a repeated pressure row) is repaired in place
    and used again in the same session: the second use sees the repaired file, all of it."""
    from pygaps.characterisation import psd_kernel as pk
    r = gen.rng(case["seed"], "rep")
    path = user_kernel(r, "r%d" % case["seed"])
    with open(path) as fh:
        good = fh.read()
    lines = good.split("\n")
    ncol = len(lines[0].split(",")) - 1
    if case["damage"] == "repeated-row":
        bad = lines[:20] + [lines[19]] + lines[20:]
    else:
        col = max(1, ncol // 2) if case["damage"] == "bad-cell" else ncol  # (the loader has built some of the interpolators when it trips)
        cells = lines[30].split(",")
        cells[col] = "1.2.3e"  # (not a number, and not one of the spellings pandas reads as a missing value)
        bad = lines[:30] + [",".join(cells)] + lines[31:]
    with open(path, "w") as fh:
        fh.write("\n".join(bad))
    p0 = numpy.exp(numpy.linspace(math.log(1e-5), math.log(0.9), 30))
    first = _call(pk.psd_dft_kernel_fit, p0, p0 * 3.0, path, 0)
    ctx.count("repaired_kernel", "%s/first-use-%s" % (case["damage"], "refused" if first[0] != "ok" else "accepted"))
    with open(path, "w") as fh:
        fh.write(good)
    k = load_kernel(path)
    w = _weights(r, len(k["widths"]), "dense")
    p = _grid(r, k, n=50)
    n = _synth(k, w, p)
    del _CAP[:]
    res = _call(pk.psd_dft_kernel_fit, p, n, path, 0)
    ctx.case(["repaired-kernel", case["damage"], case["seed"]])
    if first[0] == "ok":
        # the damaged file was accepted (then the library has cached whatever it made of it): not the history this case is about
        ctx.trivial += 1
        return
    if res[0] != "ok":
        ctx.violation("psd_dft_kernel_fit/repaired-kernel/raises", "after a failed first load, the repaired kernel file cannot be used in the same session", exc=res[1], damage=case["damage"])
        return
    if not _CAP or len(_CAP[-1]["widths"]) != len(k["widths"]) or not numpy.allclose(_CAP[-1]["widths"], k["widths"]):
        ctx.violation("psd_dft_kernel_fit/repaired-kernel/partial-kernel-used", "after a failed first load, the second use does not see all pore widths of the (repaired) kernel file", got=len(_CAP[-1]["widths"]) if _CAP else None,
                      expected=len(k["widths"]), damage=case["damage"])
        return
    fitted = numpy.asarray(res[1][3], dtype=float)
    scale = float(numpy.max(numpy.abs(n)))
    if float(numpy.max(numpy.abs(fitted - n))) > 1e-9 * scale:
        ctx.violation("psd_dft_kernel_fit/repaired-kernel/fit-does-not-reproduce-input", "after a failed first load, an exact combination of the repaired kernel is not reproduced", max_dev=float(numpy.max(numpy.abs(fitted - n))), scale=scale)


def finalize(ctx):
    reasons = []
    if ctx.hooks.get("bspline", 0) < 20:
        reasons.append("smoothing hook reached fewer than 20 times")
    fits = ctx.tables.get("fits", {})
    for o in range(4):
        if sum(v for kk, v in fits.items() if "/order-%d/" % o in kk) < 3:
            reasons.append("fewer than 3 fits with spline order %d" % o)
    if sum(v for kk, v in fits.items() if kk.startswith("user")) < 3:
        reasons.append("fewer than 3 fits with a user kernel")
    for t in ("limits", "range", "two_kernels"):
        if sum(ctx.tables.get(t, {}).values()) < 3:
            reasons.append("clause %s judged fewer than 3 times" % t)
    for label, (hit, tot) in ctx.reach.items():
        if tot and not hit:
            reasons.append("anchored function %s never entered" % label)
    return reasons
