"""C01 — unit, pressure-mode and basis conversions are physically correct and consistent.

Monitor shape: postcondition on the return value / exception of c_pressure, c_loading,
c_material, c_temperature (the public boundary) and of the Adsorbate property methods
that feed them.  Oracle: pgverif.ref.units (SI tables + CoolProp PropsSI).
"""

import itertools
import math

import numpy
import pandas

from pgverif import gen
from pgverif.core import close
from pgverif.ref import units as RU

LEVEL = "exploration"
RULE = (
    "cases = (adsorbate, temperature) or material contexts; inside each every ordered pair "
    "(and triple) of representations is converted by the real c_* function for several value "
    "kinds and compared with the SI/PropsSI reference factor; distinct = (function, from, to, "
    "context) with from != to; same-representation and refused-before-oracle calls are trivial"
)
ASSUMPTIONS = [
    "CoolProp PropsSI (high-level API, HEOS backend) is the reference for saturation properties",
    "SI definitions: atm=101325 Pa, torr=atm/760, mmHg=133.322387415 Pa, STP=273.15 K/101325 Pa ideal gas",
    "rounded pyGAPS constants (cm3(STP), torr/mmHg) are accepted within relative 3e-4",
]
NSHARDS = {"quick": 8, "thorough": 16}
TIMEOUT = {"quick": 200, "thorough": 1500}

VALUES = [2.5, 3, 0.0, -1.75, 1e-12, 1e12]


def anchors():
    from pygaps.units import converter_mode as cm
    from pygaps.units import converter_unit as cu
    return [("c_pressure", cm.c_pressure), ("c_loading", cm.c_loading), ("c_material", cm.c_material),
            ("c_temperature", cm.c_temperature), ("c_unit", cu.c_unit)]


def gen_cases(tier, seed):
    r = gen.rng(seed, "c01")
    ctxs = gen.contexts(tier, seed)
    for name, T in ctxs:
        yield {"kind": "pressure", "ads": name, "T": T, "triples": True}
    nmat = 3 if tier == "quick" else 19
    for i, (name, T) in enumerate(ctxs):
        mats = list(RU.MATERIAL_REPR)
        r.shuffle(mats)
        yield {
            "kind": "loading",
            "ads": name,
            "T": T,
            "materials": mats[:nmat],
            "triples": (tier == "thorough" and i < 24) or i < 1,
            "triple_sample": None if tier == "thorough" else 1500,
            "seed": r.randrange(1 << 30)
        }
    for i, (fa, fb, T) in enumerate([("ParaHydrogen", "Hydrogen", 20.0), ("HeavyWater", "Water", 300.0), ("Ethanol", "Methanol", 300.0), ("n-Hexane", "n-Heptane", 300.0)] * (1 if tier == "quick" else 6)):
        yield {"kind": "samename", "fluids": [fa, fb], "T": T + (i // 4) * 3.5, "seed": r.randrange(1 << 30)}
    for i in range(4 if tier == "quick" else 60):
        yield {
            "kind": "material",
            "props": gen.material_props(r),
            "triples": tier == "thorough" or i < 1,
            "triple_sample": None if tier == "thorough" else 1500,
            "seed": r.randrange(1 << 30)
        }
    yield {"kind": "temperature"}
    for name, T in ctxs[:3 if tier == "quick" else 12]:
        yield {"kind": "refusals", "ads": name, "T": T, "props": gen.material_props(r)}
    for name, T in ctxs:
        yield {"kind": "adsorbate_props", "ads": name, "T": T}


# ------------------------------------------------------------------ helpers


def _fresh(label):
    """The same text as a new string object (what json / csv / str methods hand out)."""
    return None if label is None else (label + " ").strip()


def _kinds(v):
    """The same number delivered as different value kinds -> list of (kind, obj, extractor)."""
    out = [("py", v, lambda o: o)]
    out.append(("np64", numpy.float64(v), lambda o: o))
    out.append(("0d", numpy.asarray(float(v)), lambda o: o))
    arr = numpy.array([float(v), 2 * float(v), 0.5 * float(v)])
    out.append(("1d", arr, None))
    out.append(("series", pandas.Series(arr, index=[7, 3, 11]), None))
    if float(v) == int(v) and abs(v) < 1e6:
        # whole numbers in an integer-typed array / numpy integer scalar (a column read from a file of whole numbers)
        out.append(("1d-int", numpy.array([int(v), 2 * int(v), 3 * int(v)], dtype=numpy.int64), None))
        out.append(("np-int", numpy.int64(int(v)), lambda o: o))
    return out


def _call(fn, *a, **k):
    try:
        return ("ok", fn(*a, **k))
    except Exception as exc:  # classified by the caller
        return ("exc", exc)


def _is_param_error(exc):
    from pygaps.utilities.exceptions import ParameterError
    return isinstance(exc, ParameterError)


def _check_values(ctx, fname, fn_call, factor, rtol, rep_from, rep_to, context):
    """Run the real conversion for several values/kinds and compare with value*factor."""
    pairkey = "%s:%s->%s" % (fname, _r(rep_from), _r(rep_to))
    same = rep_from == rep_to
    ctx.case([fname, rep_from, rep_to, context], nontrivial=not same, n=0)
    for v in VALUES:
        expected = v * factor
        for kind, obj, _ in _kinds(v):
            keep = numpy.array(obj, dtype=float, copy=True) if kind in ("1d", "series", "0d", "1d-int") else None
            status, res = _call(fn_call, obj)
            ctx.evaluations += 1
            if same:
                ctx.trivial += 1
            if keep is not None and status == "ok" and not numpy.array_equal(keep, numpy.asarray(obj, dtype=float)):
                # a conversion returns a new value: the array or Series the caller passed in is still the caller's
                ctx.violation("%s/writes-into-argument/%s" % (fname, _bk(rep_from, rep_to)), "the conversion modified the array passed to it", pair=pairkey, kind=kind, before=keep, after=numpy.asarray(obj, dtype=float),
                              context=context)
                return
            if status == "exc":
                ctx.violation("%s/raises/%s" % (fname, _bk(rep_from, rep_to)),
                              "conversion between valid representations raised %s" % type(res).__name__,
                              pair=pairkey,
                              value=v,
                              kind=kind,
                              exc=res,
                              context=context)
                return
            if kind in ("1d", "series", "1d-int"):
                exp_arr = (numpy.array([v, 2 * v, 0.5 * v], dtype=float) if kind != "1d-int" else numpy.array([v, 2 * v, 3 * v], dtype=float)) * factor
                got = numpy.asarray(res, dtype=float)
                if got.shape != exp_arr.shape or not all(
                    close(g, e, rtol, 0.0) for g, e in zip(got, exp_arr)
                ):
                    ctx.violation("%s/array/%s" % (fname, _bk(rep_from, rep_to)),
                                  "array result differs from element-wise reference",
                                  pair=pairkey,
                                  kind=kind,
                                  got=got,
                                  expected=exp_arr,
                                  context=context)
                    return
                if kind == "series":
                    if not isinstance(res, pandas.Series) or list(res.index) != [7, 3, 11]:
                        ctx.violation("%s/series-index/%s" % (fname, _bk(rep_from, rep_to)),
                                      "Series result lost its type or index",
                                      pair=pairkey,
                                      got=repr(res),
                                      context=context)
                        return
                continue
            got = float(res)
            if same:
                # identity must be exact up to 1 ulp-ish
                if not close(got, float(v), 1e-15):
                    ctx.violation("%s/identity/%s" % (fname, _bk(rep_from, rep_to)),
                                  "conversion to the same representation is not the identity",
                                  pair=pairkey,
                                  value=v,
                                  got=got,
                                  context=context)
                    return
            if not close(got, expected, rtol, 0.0):
                ctx.violation("%s/factor/%s" % (fname, _bk(rep_from, rep_to, unit_specific=True)),
                              "factor differs from SI/PropsSI reference",
                              pair=pairkey,
                              value=v,
                              kind=kind,
                              got=got,
                              expected=expected,
                              rel=abs(got - expected) / max(abs(expected), 1e-300),
                              context=context)
                return


def _r(rep):
    return "%s[%s]" % (rep[0], rep[1])


def _bk(rep_from, rep_to, unit_specific=False):
    """Mechanism part of a key: the pair of bases (keys never carry values or contexts)."""
    return "%s->%s" % (rep_from[0], rep_to[0])


# ------------------------------------------------------------------ case runners


def run_case(case, ctx):
    kind = case["kind"]
    ctx.count("case_kinds", kind)
    globals()["_run_" + kind](case, ctx)


def _adsorbate(name):
    import pygaps
    return pygaps.Adsorbate.find(name)


def _run_pressure(case, ctx):
    from pygaps.units.converter_mode import c_pressure
    ads = _adsorbate(case["ads"])
    T = case["T"]
    fl = RU.fluid(ads.properties["backend_name"])
    context = [case["ads"], T]
    reps = RU.PRESSURE_REPR
    fac = {}
    for a, b in itertools.product(reps, reps):
        try:
            f = RU.pressure_factor(a[0], a[1], b[0], b[1], fl, T)
        except Exception as exc:
            ctx.count("reference_unavailable", "pressure")
            continue
        fac[(a, b)] = f
        rtol = RU.rtol_for(a[1], b[1])
        ctx.count("pressure_pairs", "%s->%s" % (_r(a), _r(b)))
        _check_values(
            ctx, "c_pressure", lambda x, a=a, b=b: c_pressure(x, a[0], b[0], a[1], b[1], ads, T), f, rtol, a, b, context
        )
    # there-and-back and path independence on the real function
    v = 3.7
    for a, b in itertools.product(reps, reps):
        s1, there = _call(c_pressure, v, a[0], b[0], a[1], b[1], ads, T)
        if s1 != "ok":
            continue
        s2, back = _call(c_pressure, there, b[0], a[0], b[1], a[1], ads, T)
        ctx.case(["c_pressure", "roundtrip", a, b, context], nontrivial=a != b)
        if s2 != "ok" or not close(back, v, 1e-12):
            ctx.violation("c_pressure/roundtrip/%s" % _bk(a, b), "there-and-back does not return the original", a=a, b=b, back=back)
    if case.get("triples"):
        for a, b, c in itertools.product(reps, reps, reps):
            s1, ab = _call(c_pressure, v, a[0], b[0], a[1], b[1], ads, T)
            s2, abc = _call(c_pressure, ab, b[0], c[0], b[1], c[1], ads, T) if s1 == "ok" else ("exc", None)
            s3, ac = _call(c_pressure, v, a[0], c[0], a[1], c[1], ads, T)
            ctx.case(["c_pressure", "triple", a, b, c, context], nontrivial=len({a, b, c}) == 3)
            if "exc" in (s1, s2, s3):
                continue  # already reported by the pair sweep
            if not close(abc, ac, 1e-9):
                ctx.violation("c_pressure/path/%s->%s->%s" % (a[0], b[0], c[0]),
                              "conversion through an intermediate differs from the direct one",
                              a=a,
                              b=b,
                              c=c,
                              via=abc,
                              direct=ac)
        ctx.count("triples", "pressure", len(reps)**3)


def _run_loading(case, ctx):
    from pygaps.units.converter_mode import c_loading
    ads = _adsorbate(case["ads"])
    T = case["T"]
    fl = RU.fluid(ads.properties["backend_name"])
    reps = RU.LOADING_REPR
    mats = [tuple(m) for m in case["materials"]]
    frac = ("fraction", "percent")
    for a, b in itertools.product(reps, reps):
        involve = a[0] in frac or b[0] in frac
        for m in (mats if involve else [mats[0]]):
            context = [case["ads"], T, list(m)] if involve else [case["ads"], T]
            try:
                f = RU.loading_factor(a[0], a[1], b[0], b[1], fl, T, m[0], m[1])
            except Exception:
                ctx.count("reference_unavailable", "loading")
                continue
            rtol = RU.rtol_for(a[1], b[1], m[1] if involve else None)
            ctx.count("loading_basis_pairs", "%s->%s" % (a[0], b[0]))
            _check_values(
                ctx,
                "c_loading",
                # (labels as they arrive from a file or a user's string handling: equal text, not the same object)
                lambda x, a=a, b=b, m=m: c_loading(x, a[0], _fresh(b[0]), a[1], _fresh(b[1]), ads, T, m[0], _fresh(m[1])),
                f,
                rtol,
                a,
                b,
                context,
            )
    v = 0.37
    m = mats[0]
    for a, b in itertools.product(reps, reps):
        s1, there = _call(c_loading, v, a[0], b[0], a[1], b[1], ads, T, m[0], m[1])
        if s1 != "ok":
            continue
        s2, back = _call(c_loading, there, b[0], a[0], b[1], a[1], ads, T, m[0], m[1])
        ctx.case(["c_loading", "roundtrip", a, b, case["ads"], T, m], nontrivial=a != b)
        if s2 != "ok" or not close(back, v, 1e-12):
            ctx.violation("c_loading/roundtrip/%s" % _bk(a, b), "there-and-back does not return the original", a=a, b=b, back=back, material=m)
    if case.get("triples"):
        triples = itertools.product(reps, reps, reps)
        if case.get("triple_sample"):
            r = gen.rng(case["seed"], "lt")
            allt = list(triples)
            triples = r.sample(allt, case["triple_sample"])
        n = 0
        for a, b, c in triples:
            n += 1
            s1, ab = _call(c_loading, v, a[0], b[0], a[1], b[1], ads, T, m[0], m[1])
            s2, abc = _call(c_loading, ab, b[0], c[0], b[1], c[1], ads, T, m[0], m[1]) if s1 == "ok" else ("exc", None)
            s3, ac = _call(c_loading, v, a[0], c[0], a[1], c[1], ads, T, m[0], m[1])
            ctx.case(["c_loading", "triple", a, b, c, case["ads"], T, m], nontrivial=len({a, b, c}) == 3)
            if "exc" in (s1, s2, s3):
                continue
            if not close(abc, ac, 1e-9):
                ctx.violation("c_loading/path/%s->%s->%s" % (a[0], b[0], c[0]),
                              "conversion through an intermediate differs from the direct one",
                              a=a,
                              b=b,
                              c=c,
                              via=abc,
                              direct=ac,
                              material=m)
        ctx.count("triples", "loading", n)


def _edited_material(case, ctx, r):
    """A material whose density / molar mass is corrected after it was used in a conversion: the next conversion uses the
    values it has now."""
    import pygaps
    from pygaps.units.converter_mode import c_material
    props = dict(case["props"])
    mat = pygaps.Material("verif-mat-edited", **props)
    pairs = [(("volume", "cm3"), ("molar", "mol")), (("molar", "mmol"), ("volume", "cm3")), (("mass", "g"), ("volume", "cm3")), (("mass", "g"), ("molar", "mol"))]
    for step in range(3):
        for a, b in pairs:
            try:
                f = RU.material_factor(a[0], a[1], b[0], b[1], density=mat.properties["density"], molar_mass=mat.properties["molar_mass"])
            except Exception:
                continue
            st, got = _call(c_material, 1.7, a[0], b[0], a[1], b[1], mat)
            ctx.case(["edited-material", a, b, step])
            ctx.count("material_histories", "converted-after-%d-edit(s)" % step)
            if st != "ok" or not close(float(got), 1.7 * f, 1e-9):
                ctx.violation("c_material/edited-material/%s" % _bk(a, b), "after the material's density / molar mass was changed the conversion still uses the earlier values", got=got, expected=1.7 * f,
                              density=mat.properties["density"], molar_mass=mat.properties["molar_mass"], edits=step)
                return
        # the correction: through the attribute or through the property dictionary
        if step == 0:
            mat.properties["density"] = round(mat.properties["density"] * r.uniform(1.2, 1.8), 4)
        else:
            try:
                mat.molar_mass = round(mat.properties["molar_mass"] * r.uniform(0.5, 0.8), 3)
            except Exception:
                mat.properties["molar_mass"] = round(mat.properties["molar_mass"] * r.uniform(0.5, 0.8), 3)


def _run_samename(case, ctx):
    """The conversion uses the densities of the adsorbate object it is handed: two objects that share a name (a user's own
    'solvent' re-created on another backend fluid; para- and normal hydrogen) are two adsorbates, in whatever order they are used."""
    import pygaps
    from pygaps.units.converter_mode import c_loading
    from pygaps.units.converter_mode import c_pressure
    T = case["T"]
    r = gen.rng(case["seed"], "sn")
    objs = [pygaps.Adsorbate("verif-same-name", store=False, backend_name=f) for f in case["fluids"]]
    fls = [RU.fluid(f) for f in case["fluids"]]
    pairs = [(("mass", "g"), ("volume_liquid", "cm3")), (("volume_liquid", "cm3"), ("mass", "mg")), (("molar", "mmol"), ("volume_liquid", "cm3")), (("molar", "mmol"), ("volume_gas", "cm3")),
             (("mass", "g"), ("volume_gas", "cm3")), (("mass", "g"), ("molar", "mmol")), (("volume_liquid", "cm3"), ("volume_gas", "cm3"))]
    order = [0, 1, 0, 1] if r.random() < 0.5 else [1, 0, 1, 0]
    for which in order:
        ads, fl = objs[which], fls[which]
        for a, b in pairs:
            try:
                f = RU.loading_factor(a[0], a[1], b[0], b[1], fl, T, "mass", "g")
            except Exception:
                ctx.count("reference_unavailable", "samename")
                continue
            st, got = _call(c_loading, 0.37, a[0], b[0], a[1], b[1], ads, T, "mass", "g")
            ctx.case(["samename", "loading", a, b, case["fluids"][which], T, tuple(order)])
            ctx.count("same_name_objects", "c_loading/%s->%s" % (a[0], b[0]))
            if st != "ok" or not close(float(got), 0.37 * f, 1e-7):
                ctx.violation("c_loading/same-name-objects/%s" % _bk(a, b), "the factor is not the one of the adsorbate object that was passed (another object of the same name was used before)", fluid=case["fluids"][which],
                              other=case["fluids"][1 - which], T=T, got=got, expected=0.37 * f, order=order)
        try:
            f = RU.pressure_factor("relative", None, "absolute", "bar", fl, T)
            st, got = _call(c_pressure, 0.37, "relative", "absolute", None, "bar", ads, T)
            ctx.case(["samename", "pressure", case["fluids"][which], T, tuple(order)])
            ctx.count("same_name_objects", "c_pressure/relative->absolute")
            if st != "ok" or not close(float(got), 0.37 * f, 1e-7):
                ctx.violation("c_pressure/same-name-objects", "the saturation pressure is not the one of the adsorbate object that was passed", fluid=case["fluids"][which], T=T, got=got, expected=0.37 * f)
        except Exception:
            ctx.count("reference_unavailable", "samename-pressure")


class _Mat:
    def __init__(self, density, molar_mass):
        self.density = density
        self.molar_mass = molar_mass


def _run_material(case, ctx):
    _edited_material(case, ctx, gen.rng(case["seed"], "edit"))
    _run_material_body(case, ctx)


def _run_material_body(case, ctx):
    import pygaps
    from pygaps.units.converter_mode import c_material
    props = case["props"]
    mat = pygaps.Material("verif-mat", **props)
    reps = RU.MATERIAL_REPR
    context = [props["density"], props["molar_mass"]]
    for a, b in itertools.product(reps, reps):
        f = RU.material_factor(a[0], a[1], b[0], b[1], props["density"], props["molar_mass"])
        rtol = RU.rtol_for(a[1], b[1])
        ctx.count("material_basis_pairs", "%s->%s" % (a[0], b[0]))
        _check_values(
            ctx, "c_material", lambda x, a=a, b=b: c_material(x, a[0], b[0], a[1], b[1], mat), f, rtol, a, b, context
        )
    v = 1.9
    for a, b in itertools.product(reps, reps):
        s1, there = _call(c_material, v, a[0], b[0], a[1], b[1], mat)
        if s1 != "ok":
            continue
        s2, back = _call(c_material, there, b[0], a[0], b[1], a[1], mat)
        ctx.case(["c_material", "roundtrip", a, b, context], nontrivial=a != b)
        if s2 != "ok" or not close(back, v, 1e-12):
            ctx.violation("c_material/roundtrip/%s" % _bk(a, b), "there-and-back does not return the original", a=a, b=b, back=back)
    if case.get("triples"):
        triples = list(itertools.product(reps, reps, reps))
        if case.get("triple_sample"):
            triples = gen.rng(case["seed"], "mt").sample(triples, case["triple_sample"])
        for a, b, c in triples:
            s1, ab = _call(c_material, v, a[0], b[0], a[1], b[1], mat)
            s2, abc = _call(c_material, ab, b[0], c[0], b[1], c[1], mat) if s1 == "ok" else ("exc", None)
            s3, ac = _call(c_material, v, a[0], c[0], a[1], c[1], mat)
            ctx.case(["c_material", "triple", a, b, c, context], nontrivial=len({a, b, c}) == 3)
            if "exc" in (s1, s2, s3):
                continue
            if not close(abc, ac, 1e-9):
                ctx.violation("c_material/path/%s->%s->%s" % (a[0], b[0], c[0]),
                              "conversion through an intermediate differs from the direct one",
                              a=a,
                              b=b,
                              c=c,
                              via=abc,
                              direct=ac)
        ctx.count("triples", "material", len(triples))


def _run_temperature(case, ctx):
    from pygaps.units.converter_mode import c_temperature
    spell = {"K": ["K"], "°C": ["°C", "C", "degC", "celsius"]}
    for a, b in itertools.product(RU.TEMPERATURE_REPR, RU.TEMPERATURE_REPR):
        for sa in spell[a]:
            for sb in spell[b]:
                for v in [77.355, 0.0, -40.0, 298.15, 1e4]:
                    exp = RU.temperature(v, a, b)
                    for kind, obj, _ in _kinds(v)[:3]:
                        st, res = _call(c_temperature, obj, sa, sb)
                        ctx.case(["c_temperature", a, b, sa, sb, v], nontrivial=a != b)
                        if st != "ok" or not close(float(res), exp, 1e-12, 1e-12):
                            ctx.violation("c_temperature/value/%s->%s" % (a, b), "temperature conversion wrong", v=v, got=res, expected=exp, sa=sa, sb=sb)
                    st, arr = _call(c_temperature, numpy.array([v, v + 1.0]), sa, sb)
                    if st != "ok" or not close(float(arr[1]), RU.temperature(v + 1.0, a, b), 1e-12, 1e-12):
                        ctx.violation("c_temperature/array/%s->%s" % (a, b), "array temperature conversion wrong", v=v, got=arr)
                # there and back
                st, there = _call(c_temperature, 123.4, sa, sb)
                st2, back = _call(c_temperature, there, sb, sa) if st == "ok" else ("exc", None)
                if st2 != "ok" or not close(back, 123.4, 1e-12):
                    ctx.violation("c_temperature/roundtrip/%s->%s" % (a, b), "there-and-back wrong", back=back)
    for bad in [None, "", "F", "R", "kelvin", "k"]:
        for pos in (0, 1):
            args = ["K", "K"]
            args[pos] = bad
            st, res = _call(c_temperature, 300.0, *args)
            ctx.case(["c_temperature", "refusal", repr(bad), pos])
            ctx.count("refusals", "c_temperature")
            if st == "ok" or not _is_param_error(res):
                ctx.violation("c_temperature/refusal", "missing/unknown temperature unit not refused with ParameterError", bad=bad, pos=pos, got=res)


BAD_UNITS = [None, "", "xx"]


def _run_refusals(case, ctx):
    """(f): missing / unknown mode, basis, or needed unit => ParameterError, never a number."""
    import pygaps
    from pygaps.units.converter_mode import c_loading
    from pygaps.units.converter_mode import c_material
    from pygaps.units.converter_mode import c_pressure
    ads = _adsorbate(case["ads"])
    T = case["T"]
    mat = pygaps.Material("verif-mat", **case["props"])

    def expect_refusal(fname, what, fn, *a):
        st, res = _call(fn, 1.5, *a)
        ctx.case([fname, "refusal", what, [repr(x) for x in a[:6]]])
        ctx.count("refusals", fname + "/" + what)
        if st == "ok":
            ctx.violation("%s/refusal/%s/returned-number" % (fname, what), "%s produced a number instead of a parameter error" % what, args=[repr(x) for x in a[:8]], got=res)
        elif not _is_param_error(res):
            ctx.violation("%s/refusal/%s/%s" % (fname, what, type(res).__name__),
                          "%s refused with %s instead of a parameter error" % (what, type(res).__name__),
                          args=[repr(x) for x in a[:8]],
                          exc=res)

    # ---- pressure
    for bad in BAD_UNITS + ["Absolute", "abs"]:
        expect_refusal("c_pressure", "bad-mode_from", c_pressure, bad, "absolute", "bar", "bar", ads, T)
        expect_refusal("c_pressure", "bad-mode_to", c_pressure, "absolute", bad, "bar", "bar", ads, T)
        expect_refusal("c_pressure", "bad-mode_from", c_pressure, bad, "relative", None, None, ads, T)
    for bad in BAD_UNITS + ["pa", "BAR", "mmol", "g"]:
        # unit change in absolute mode needs both units
        if bad:  # unit_to=None/'' in the same mode is the documented "no change" request
            expect_refusal("c_pressure", "bad-unit_to", c_pressure, "absolute", "absolute", "bar", bad, ads, T)
        expect_refusal("c_pressure", "bad-unit_from", c_pressure, "absolute", "absolute", bad, "kPa", ads, T)
        # mode change needs the unit on the absolute side
        expect_refusal("c_pressure", "bad-unit_from", c_pressure, "absolute", "relative", bad, None, ads, T)
        expect_refusal("c_pressure", "bad-unit_from", c_pressure, "absolute", "relative%", bad, None, ads, T)
        expect_refusal("c_pressure", "bad-unit_to", c_pressure, "relative", "absolute", None, bad, ads, T)
        expect_refusal("c_pressure", "bad-unit_to", c_pressure, "relative%", "absolute", None, bad, ads, T)
    # ---- loading
    for bad in BAD_UNITS + ["Molar", "volume"]:
        expect_refusal("c_loading", "bad-basis_from", c_loading, bad, "molar", "mmol", "mmol", ads, T, "mass", "g")
        expect_refusal("c_loading", "bad-basis_to", c_loading, "molar", bad, "mmol", "mmol", ads, T, "mass", "g")
    phys = [("molar", "mmol"), ("mass", "mg"), ("volume_gas", "cm3"), ("volume_liquid", "L")]
    wrong_basis_unit = {"molar": "g", "mass": "mol", "volume_gas": "mmol", "volume_liquid": "kg"}
    for (bf, uf), (bt, ut) in itertools.product(phys, phys):
        for bad in BAD_UNITS + ["MMOL", wrong_basis_unit[bf]]:
            if bf != bt or bad:
                pass
            expect_refusal("c_loading", "bad-unit_from", c_loading, bf, bt, bad, ut, ads, T, "mass", "g")
        for bad in BAD_UNITS + ["MMOL", wrong_basis_unit[bt]]:
            if bf == bt and not bad:
                continue  # documented "no change"
            expect_refusal("c_loading", "bad-unit_to", c_loading, bf, bt, uf, bad, ads, T, "mass", "g")
    for fb in ("fraction", "percent"):
        for (b, u) in phys:
            for bad in BAD_UNITS + ["Mass", "volume_gas"]:
                expect_refusal("c_loading", "bad-basis_material", c_loading, b, fb, u, None, ads, T, bad, "g")
                expect_refusal("c_loading", "bad-basis_material", c_loading, fb, b, None, u, ads, T, bad, "g")
            for bad in BAD_UNITS + ["G", "mmol"]:
                expect_refusal("c_loading", "bad-unit_material", c_loading, b, fb, u, None, ads, T, "mass", bad)
                expect_refusal("c_loading", "bad-unit_material", c_loading, fb, b, None, u, ads, T, "mass", bad)
            for bad in BAD_UNITS + ["xx"]:
                expect_refusal("c_loading", "bad-unit_from", c_loading, b, fb, bad, None, ads, T, "mass", "g")
                expect_refusal("c_loading", "bad-unit_to", c_loading, fb, b, None, bad, ads, T, "mass", "g")
    # ---- material
    mphys = [("mass", "g"), ("volume", "cm3"), ("molar", "mol")]
    for bad in BAD_UNITS + ["Mass", "volume_liquid", "fraction", "percent"]:
        expect_refusal("c_material", "bad-basis_from", c_material, bad, "mass", "g", "g", mat)
        expect_refusal("c_material", "bad-basis_to", c_material, "mass", bad, "g", "g", mat)
    for (bf, uf), (bt, ut) in itertools.product(mphys, mphys):
        for bad in BAD_UNITS + ["KG", "bar"]:
            expect_refusal("c_material", "bad-unit_from", c_material, bf, bt, bad, ut, mat)
            if bf == bt and not bad:
                continue
            expect_refusal("c_material", "bad-unit_to", c_material, bf, bt, uf, bad, mat)


def _run_adsorbate_props(case, ctx):
    """The feed of the converters: Adsorbate property methods vs PropsSI."""
    ads = _adsorbate(case["ads"])
    T = case["T"]
    fl = RU.fluid(ads.properties["backend_name"])
    table = [
        ("saturation_pressure", lambda: ads.saturation_pressure(T), lambda: fl.p_sat(T)),
        ("liquid_density", lambda: ads.liquid_density(T), lambda: fl.rho_liq(T)),
        ("liquid_molar_density", lambda: ads.liquid_molar_density(T), lambda: fl.rho_liq_molar(T)),
        ("gas_density", lambda: ads.gas_density(T), lambda: fl.rho_gas(T)),
        ("gas_molar_density", lambda: ads.gas_molar_density(T), lambda: fl.rho_gas_molar(T)),
        ("molar_mass", lambda: ads.molar_mass(), lambda: fl.molar_mass()),
    ]
    for name, real, ref in table:
        try:
            exp = ref()
        except Exception:
            ctx.count("reference_unavailable", name)
            continue
        st, got = _call(real)
        ctx.case(["adsorbate", name, case["ads"], T])
        ctx.count("adsorbate_props", name)
        if st != "ok" or not close(got, exp, 1e-9):
            ctx.violation("Adsorbate.%s/value" % name, "property differs from PropsSI", ads=case["ads"], T=T, got=got, expected=exp)
    for unit, pa in RU.PA.items():
        try:
            exp = fl.p_sat(T) / pa
        except Exception:
            continue
        st, got = _call(ads.saturation_pressure, T, unit)
        ctx.case(["adsorbate", "saturation_pressure", unit, case["ads"], T])
        if st != "ok" or not close(got, exp, RU.rtol_for(unit)):
            ctx.violation("Adsorbate.saturation_pressure/unit", "unit argument not honoured", unit=unit, got=got, expected=exp)


def finalize(ctx):
    reasons = []
    need = {"pressure": 1, "loading": 1, "material": 1, "temperature": 1, "refusals": 1, "adsorbate_props": 1}
    kinds = ctx.tables.get("case_kinds", {})
    for k in need:
        if kinds.get(k, 0) < 1:
            reasons.append("case kind %s never ran" % k)
    if len(ctx.tables.get("pressure_pairs", {})) < 100:
        reasons.append("fewer than the 100 ordered pressure pairs were exercised")
    if len(ctx.tables.get("loading_basis_pairs", {})) < 36:
        reasons.append("not all 36 loading basis pairs exercised")
    if len(ctx.tables.get("material_basis_pairs", {})) < 9:
        reasons.append("not all 9 material basis pairs exercised")
    for label, (hit, tot) in ctx.reach.items():
        if tot and len(hit) == 0:
            reasons.append("anchored function %s never entered" % label)
    return reasons


def coverage_extra(ctx):
    return {
        "exhaustive": False,
        "exhaustive_parts": "all 100 ordered pressure pairs, all 729 ordered loading pairs and all 361 ordered "
        "material pairs per context; pressure triples (1000) per context; loading/material triples "
        "exhaustive in thorough, sampled in quick; adsorbate x temperature contexts and values are sampled",
    }
