"""C16 — mesopore size distributions conserve volume and follow the Kelvin equation."""

import math
import os

import numpy

from pgverif import gen
from pgverif.core import close

LEVEL = "exploration"
RULE = (
    "case = (method, pore geometry, meniscus geometry, thickness model, adsorbate property set, increasing relative-pressure "
    "grid with non-decreasing adsorbed liquid volume, pressure limits, branch); evaluations = identity checks on the returned "
    "arrays (widths = 2(r_K+t) with an independently written Kelvin formula and independently written / independently read thickness "
    "curves - the two tabulated models from a plain-text reading of their reference isotherms, with physical bounds outside the "
    "tables -, monotone widths, zero-thickness volume "
    "conservation, distribution x width increments = volumes, cumulative end point, single-step single-peak) through "
    "psd_mesoporous and the low-level functions; distinct = (method, geometries, thickness, grid digest)"
)
ASSUMPTIONS = [
    "Kelvin equation r_K = 2 gamma V_m / (f R T ln(p0/p)), f = 2 / 1 / 0.5 for cylindrical / hemispherical / hemicylindrical menisci; "
    "KJS variant (cylindrical meniscus only): 2 gamma V_m / (R T ln(p0/p)) + 0.3 nm",
    "BJH and Dollimore-Heal are defined for cylindrical pores only (a ParameterError for other geometries is a legitimate refusal)",
]
NSHARDS = {"quick": 12, "thorough": 16}
TIMEOUT = {"quick": 240, "thorough": 2400}
R_GAS = 8.31446261815324
F_MENISCUS = {"cylindrical": 2.0, "hemispherical": 1.0, "hemicylindrical": 0.5}


def anchors():
    from pygaps.characterisation import models_kelvin as mk
    from pygaps.characterisation import psd_meso as pm
    return [("psd_mesoporous", pm.psd_mesoporous), ("psd_pygapsdh", pm.psd_pygapsdh), ("psd_bjh", pm.psd_bjh), ("psd_dollimore_heal", pm.psd_dollimore_heal), ("kelvin_radius", mk.kelvin_radius),
            ("kelvin_radius_kjs", mk.kelvin_radius_kjs), ("get_meniscus_geometry", mk.get_meniscus_geometry)]


def gen_cases(tier, seed):
    r = gen.rng(seed, "c16")
    n = 300 if tier == "quick" else 30000
    for i in range(n):
        yield {"kind": "psd", "seed": r.randrange(1 << 30), "shape": ["smooth", "stepped", "single-step", "smooth"][i % 4]}
    for i in range(40 if tier == "quick" else 3000):
        yield {"kind": "kelvin", "seed": r.randrange(1 << 30)}
    # the tabulated thickness models around both ends of their tables (every run, whatever the seed)
    for i in range(24 if tier == "quick" else 1200):
        yield {"kind": "psd", "seed": r.randrange(1 << 30), "shape": ["smooth", "stepped"][i % 2], "tab": sorted(TABULATED)[i % 2], "end": ["high", "high", "low"][i % 3]}


def run_case(case, ctx):
    ctx.count("case_kinds", case["kind"])
    globals()["_run_" + case["kind"]](case, ctx)


def _call(fn, *a, **k):
    try:
        with numpy.errstate(all="ignore"):
            return ("ok", fn(*a, **k))
    except Exception as exc:
        return ("exc", exc)


def _kelvin(p, meniscus, T, rho, M, gamma, kjs=False):
    p = numpy.asarray(p, dtype=float)
    f = 1.0 if kjs else F_MENISCUS[meniscus]
    r = 2.0 * gamma * (M / rho) / (f * R_GAS * T * numpy.log(1.0 / p))
    return r + 0.3 if kjs else r


TABULATED = {"SiO2 Jaroniec/Kruk/Olivier": "LiChrospher Si-1000 silica.csv", "carbon black Kruk/Jaroniec/Gadkaree": "Cabot BP280 carbon black.csv"}
_TABLES = {}


def _table(name):
    """The reference isotherm behind a tabulated thickness model, read as plain text (not through the library's CSV parser):
    relative pressures and statistical film thickness t = n / n_m * 0.354 nm."""
    if name not in _TABLES:
        import pygaps.data
        path = os.path.join(os.path.dirname(pygaps.data.__file__), "stdiso", TABULATED[name])
        mono, ps, ts, in_data = None, [], [], False
        with open(path, encoding="utf-8") as f:
            for line in f:
                cells = line.strip().split(",")
                if in_data:
                    if len(cells) >= 2 and cells[0] not in ("", "pressure"):
                        ps.append(float(cells[0]))
                        ts.append(float(cells[1]))
                elif cells[0].startswith("monolayer uptake"):
                    mono = float(cells[1])
                elif cells[0].startswith("data:"):
                    in_data = True
        ps, ts = numpy.array(ps), numpy.array(ts) / mono * 0.354
        assert len(ps) > 20 and numpy.all(numpy.diff(ps) > 0) and numpy.all(numpy.diff(ts) >= 0)
        _TABLES[name] = (ps, ts)
    return _TABLES[name]


def _thick(name, p):
    p = numpy.asarray(p, dtype=float)
    if name == "Halsey":
        return 0.354 * ((-5) / numpy.log(p))**0.333
    if name == "Harkins/Jura":
        return (0.1399 / (0.034 - numpy.log10(p)))**0.5
    if name in TABULATED:
        # inside the table: the piecewise-linear reading of the reference isotherm; outside it the film is that of the nearest
        # end of the table above it and none below it (what the statement needs there is judged separately in _tabulated_ends)
        ps, ts = _table(name)
        return numpy.interp(p, ps, ts, left=0.0, right=ts[-1])
    return numpy.zeros_like(p)


def _tabulated_ends(name, p, ctx):
    """Outside its table a tabulated film thickness must stay physical: never thinner than the last tabulated film above the
    table, never thicker than the first one (and never negative) below it, and not decreasing with pressure anywhere."""
    from pygaps.characterisation.models_thickness import get_thickness_model
    ps, ts = _table(name)
    p = numpy.asarray(p, dtype=float)
    got = _call(get_thickness_model(name), p)
    if got[0] != "ok":
        ctx.violation("thickness/%s/raises" % name, "tabulated thickness model raised on measured relative pressures", exc=got[1])
        return False
    t = numpy.asarray(got[1], dtype=float)
    above, below, inside = p > ps[-1], p < ps[0], (p >= ps[0]) & (p <= ps[-1])
    ctx.count("tabulated_thickness", "%s/inside" % name, int(inside.sum()))
    ctx.count("tabulated_thickness", "%s/above-table-end" % name, int(above.sum()))
    ctx.count("tabulated_thickness", "%s/below-table-start" % name, int(below.sum()))
    ok = True
    if t.shape != p.shape or not numpy.all(numpy.isfinite(t)):
        ctx.violation("thickness/%s/shape-or-nan" % name, "tabulated thickness is not a finite value per pressure", got=t[:4])
        return False
    if inside.any() and not numpy.allclose(t[inside], numpy.interp(p[inside], ps, ts), rtol=1e-9, atol=1e-12):
        ctx.violation("thickness/%s/inside-table" % name, "thickness inside the table is not the linear reading of the reference isotherm", p=p[inside][:3], got=t[inside][:3], expected=numpy.interp(p[inside], ps, ts)[:3])
        ok = False
    if above.any() and numpy.any(t[above] < ts[-1] * (1 - 1e-9)):
        ctx.violation("thickness/%s/above-table-end" % name, "above the end of its table the film is thinner than the last tabulated film", p=p[above][:3], got=t[above][:3], last_tabulated=float(ts[-1]), table_end=float(ps[-1]))
        ok = False
    if below.any() and (numpy.any(t[below] < 0) or numpy.any(t[below] > ts[0] * (1 + 1e-9))):
        ctx.violation("thickness/%s/below-table-start" % name, "below the start of its table the film is negative or thicker than the first tabulated film", p=p[below][:3], got=t[below][:3], first_tabulated=float(ts[0]))
        ok = False
    if numpy.any(numpy.diff(t[numpy.argsort(p, kind="stable")]) < -1e-12):
        ctx.violation("thickness/%s/decreases" % name, "film thickness decreases with pressure", p=p[:4], got=t[:4])
        ok = False
    return ok


def _adsorbate(r, seed):
    """A custom adsorbate (no backend) registered under a unique name, with a random property set."""
    import pygaps
    name = "verif-c16-%d" % seed
    props = {"molar_mass": round(gen.log_uniform(r, 10, 200), 4), "liquid_density": round(r.uniform(0.4, 2.0), 5), "surface_tension": round(r.uniform(3, 80), 4)}
    for a in pygaps.ADSORBATE_LIST:
        if a.name == name:
            return name, props if a.properties.get("molar_mass") == props["molar_mass"] else a.properties
    pygaps.Adsorbate(name, store=True, **props)
    return name, props


def _run_psd(case, ctx):
    import pygaps
    from pygaps.characterisation import psd_meso as pm
    from pygaps.characterisation.models_kelvin import get_kelvin_model
    from pygaps.characterisation.models_kelvin import get_meniscus_geometry
    from pygaps.characterisation.models_thickness import get_thickness_model
    r = gen.rng(case["seed"], "psd")
    method = r.choice(["pygaps-DH", "BJH", "DH"])
    geom = r.choice(["slit", "cylinder", "sphere"]) if method == "pygaps-DH" else r.choice(["cylinder", "cylinder", "slit", "sphere"])
    meniscus = r.choice([None, "cylindrical", "hemispherical", "hemicylindrical"])
    tname = r.choice(["Halsey", "Harkins/Jura", "zero thickness", "zero thickness", "SiO2 Jaroniec/Kruk/Olivier", "carbon black Kruk/Jaroniec/Gadkaree"])
    kname = r.choice(["Kelvin", "Kelvin", "Kelvin-KJS"])
    branch = r.choice(["ads", "des"])
    ads_name, props = _adsorbate(r, case["seed"] % 50)
    M, rho, gamma = props["molar_mass"], props["liquid_density"], props["surface_tension"]
    # half of the cases share a few temperatures between different adsorbate property sets (the same Kelvin model and
    # temperature recur with another adsorbate within one process)
    T = round(r.uniform(60, 320), 3) if r.random() < 0.5 else r.choice([77.355, 87.3, 298.15])
    if case["seed"] % 5 == 0:
        # a vapour with a thermodynamic backend *and* tabulated values that differ from it (a user's 'hexane' with a handbook
        # molar mass, density and surface tension): the analysis takes all three from one source - the backend, as every other
        # conversion of that isotherm does
        from pgverif.ref import units as RU
        bk = r.choice(["n-Hexane", "Ethanol", "Benzene"])
        T = r.choice([273.15, 298.15, 313.15])
        fl = RU.fluid(bk)
        ads_name = "verif-c16-bk-%s" % bk
        if not any(a.name == ads_name for a in pygaps.ADSORBATE_LIST):
            pygaps.Adsorbate(ads_name, store=True, backend_name=bk, molar_mass=round(fl.molar_mass() * 1.07, 3), liquid_density=round(fl.rho_liq(298.15) * 0.93, 4), surface_tension=round(fl._p("I", 298.15, 0) * 1000 * 1.2, 3))
        M, rho, gamma = fl.molar_mass(), fl.rho_liq(T), fl._p("I", T, 0) * 1000
        ctx.count("adsorbates", "backend-with-differing-tabulated-values/" + bk)
    n = r.choice([4, 5, 8, 20, 60]) if r.random() < 0.5 else r.randint(4, 80)
    p = numpy.array(gen.increasing(r, n, 0.02, 0.998, log=r.random() < 0.3))
    if case.get("tab"):
        tname = case["tab"]
        if case["seed"] % 4 or case["end"] == "low":
            # three in four with the method and Kelvin model that accept every geometry, so that the case is not refused
            method, kname = "pygaps-DH", "Kelvin"
        ps_tab = _table(tname)[0]
        n = max(n, 8)
        if case["end"] == "high":
            # readings on both sides of the last tabulated pressure, two of them within 0.004 of it
            e = float(ps_tab[-1])
            k = n // 2
            p = numpy.array(sorted(set([round(r.uniform(0.15, e - 0.005), 6) for _ in range(k)] + [round(e - r.uniform(0.0002, 0.002), 6), round(e + r.uniform(0.0002, 0.002), 6)] +
                                       [round(r.uniform(e + 0.003, 0.9985), 6) for _ in range(n - k - 2)])))
        else:
            # an ultra-low-pressure scan that starts below the first tabulated pressure
            e = float(ps_tab[0])
            p = numpy.array(sorted(set([e * r.uniform(0.05, 0.95) for _ in range(3)] + [e * gen.log_uniform(r, 1.05, 1e5) for _ in range(n - 3)])))
        n = len(p)
        ctx.count("tabulated_cases", "%s/%s-end" % (tname, case["end"]))
    shape = case["shape"]
    if shape == "smooth":
        v = numpy.cumsum(numpy.abs(numpy.array([r.uniform(0.0, 1.0) for _ in range(n)]))) * 0.01 + 0.05
    elif shape == "stepped":
        inc = numpy.array([r.choice([0.0, 0.0, r.uniform(0.01, 0.3)]) for _ in range(n)])
        v = numpy.cumsum(inc) + 0.05
    else:
        k_step = r.randint(1, n - 1)
        v = numpy.full(n, 0.1)
        v[k_step:] = 0.1 + r.uniform(0.05, 0.9)
    # the analysis is homogeneous in the adsorbed volume: a low-area sample or one recorded per mg has numbers six to eight
    # decades smaller
    vscale = r.choice([1.0, 1.0, 1.0, 1e-3, 1e-6, 1e-8])
    v = v * vscale
    ctx.count("volume_scale", "x%g" % vscale)
    # limits
    lim_kind = r.choice(["default", "none", "manual", "manual"])
    if case.get("tab") and (lim_kind == "default" or case["end"] == "low"):
        lim_kind = "none"
    if lim_kind == "default":
        lims = None
        lo_p, hi_p = 0.1, 0.99
    elif lim_kind == "none":
        lims = (None, None)
        lo_p, hi_p = None, None
    else:
        i0 = r.randint(0, max(0, n - 4))
        i1 = r.randint(min(n - 1, i0 + 3), n - 1)
        lo_p = (p[i0 - 1] + p[i0]) / 2 if i0 > 0 else p[0] * 0.5
        hi_p = (p[i1] + p[i1 + 1]) / 2 if i1 + 1 < n else (p[-1] + 1) / 2
        lims = (float(lo_p), float(hi_p))
    mask = numpy.ones(n, bool)
    if lo_p is not None:
        mask &= p >= lo_p
    if hi_p is not None:
        mask &= p < hi_p
    used = numpy.flatnonzero(mask)
    # isotherm: volume of liquid adsorbate per g, relative pressure
    if branch == "ads":
        pp, vv, bb = list(p), list(v), [False] * n
    else:
        pp, vv, bb = list(p[::-1]), list(v[::-1]), [True] * n
    # every other isotherm is recorded in degrees Celsius (the analysis works in kelvin whatever the stored unit)
    tunit = "°C" if case["seed"] % 2 else "K"
    # ... and every third one in percent of the saturation pressure
    pmode = "relative%" if case["seed"] % 3 == 1 else "relative"
    if pmode == "relative%":
        pp = [x * 100.0 for x in pp]
        ctx.count("stored_pressure_mode", "relative%")
    iso = pygaps.PointIsotherm(pressure=pp, loading=vv, branch=bb, material="verif-c16", adsorbate=ads_name, temperature=T if tunit == "K" else T - 273.15, pressure_mode=pmode, pressure_unit=None,
                               loading_basis="volume_liquid", loading_unit="cm3", material_basis="mass", material_unit="g", temperature_unit=tunit)
    kw = dict(psd_model=method, pore_geometry=geom, branch=branch, thickness_model=tname, kelvin_model=kname, p_limits=lims)
    if meniscus:
        kw["meniscus_geometry"] = meniscus
    res = _call(pm.psd_mesoporous, iso, **kw)
    from pgverif.core import _h
    dg = _h([method, geom, meniscus, tname, kname, branch, n, shape, lim_kind])
    ctx.case(["psd", dg, case["seed"]])
    ctx.count("psd_configs", "%s/%s/%s/%s" % (method, geom, tname, kname))
    from pygaps.utilities.exceptions import CalculationError
    from pygaps.utilities.exceptions import ParameterError
    if res[0] != "ok":
        if method != "pygaps-DH" and geom != "cylinder" and isinstance(res[1], ParameterError):
            ctx.count("refusals", "BJH/DH non-cylinder")
            ctx.trivial += 1
            return
        if kname == "Kelvin-KJS" and (meniscus or get_meniscus_geometry(branch, geom)) != "cylindrical" and isinstance(res[1], ParameterError):
            ctx.count("refusals", "KJS with a non-cylindrical meniscus")
            ctx.trivial += 1
            return
        if len(used) < 3 and isinstance(res[1], CalculationError):
            ctx.count("refusals", "fewer than 3 points")
            ctx.trivial += 1
            return
        ctx.violation("psd_mesoporous/raises", "mesopore analysis raised on a valid increasing branch", exc=res[1], config=kw, npoints=len(used))
        return
    if len(used) < 3:
        ctx.violation("psd_mesoporous/fewer-than-3-points-not-refused", "a window with fewer than three points was analysed", npoints=len(used))
        return
    out = res[1]
    if case["seed"] % 2 == 0:
        # another sample is analysed with the same settings (same pressures, other volumes) while this result is still held:
        # a result, once returned, is the caller's
        try:
            iso_b = pygaps.PointIsotherm(pressure=pp, loading=[x * 1.7 + vscale * 0.02 * i for i, x in enumerate(vv)] if branch == "ads" else [x * 1.7 for x in vv], branch=bb, material="verif-c16-b", adsorbate=ads_name,
                                         temperature=T if tunit == "K" else T - 273.15, pressure_mode=pmode, pressure_unit=None, loading_basis="volume_liquid", loading_unit="cm3", material_basis="mass",
                                         material_unit="g", temperature_unit=tunit)
            _call(pm.psd_mesoporous, iso_b, **kw)
            ctx.count("histories", "second-analysis-before-the-first-result-is-read")
        except Exception:
            pass
    pu, vu = p[used], v[used]
    men = meniscus or get_meniscus_geometry(branch, geom)
    exp_men = {("ads", "slit"): "hemicylindrical", ("ads", "cylinder"): "cylindrical", ("ads", "sphere"): "hemispherical", ("des", "slit"): "hemicylindrical", ("des", "cylinder"): "hemispherical",
               ("des", "sphere"): "hemispherical"}[(branch, geom)]
    if not meniscus and men != exp_men:
        ctx.violation("get_meniscus_geometry/value", "inferred meniscus geometry differs from the documented table", branch=branch, geom=geom, got=men, expected=exp_men)
    key = "psd_mesoporous/%s" % method
    lims_got = out.get("limits")
    if tuple(int(x) for x in lims_got) != (int(used[0]), int(used[-1])):
        ctx.violation(key + "/limits", "the analysed window is not exactly the points inside the pressure limits", got=lims_got, expected=[int(used[0]), int(used[-1])], limits=lims)
        return
    rk = _kelvin(pu, men, T, rho, M, gamma, kjs=(kname == "Kelvin-KJS"))
    tt = _thick(tname, pu)
    if tname in TABULATED:
        if not _tabulated_ends(tname, pu, ctx):
            return
        ps_tab = _table(tname)[0]
        outside = (pu > ps_tab[-1]) | (pu < ps_tab[0])
        if outside.any():
            # any continuation that stays within the physical bounds just judged is accepted outside the table
            tt = numpy.where(outside, numpy.asarray(get_thickness_model(tname)(pu), dtype=float), tt)
    w_all = 2 * (rk + tt)
    widths = numpy.asarray(out["pore_widths"], dtype=float)
    vols = numpy.asarray(out["pore_volumes"], dtype=float)
    dist = numpy.asarray(out["pore_distribution"], dtype=float)
    cum = numpy.asarray(out["pore_volume_cumulative"], dtype=float)
    m = len(pu)
    # (1) widths
    ctx.case(["psd", dg, "widths"])
    if widths.shape != (m - 1, ) or not all(close(a, b, 1e-9) for a, b in zip(widths, w_all[:-1])):
        ctx.violation(key + "/widths", "reported pore widths are not 2 (r_K + t) at the measured pressures", got=widths[:4], expected=w_all[:4], meniscus=men, kelvin=kname, thickness=tname, geom=geom, branch=branch)
        return
    if not numpy.all(numpy.diff(w_all) > 0):
        ctx.count("skipped", "reference widths not increasing")
    elif not numpy.all(numpy.diff(widths) > 0):
        ctx.violation(key + "/widths-not-increasing", "pore widths do not increase with pressure", got=widths[:6])
    # (2) zero thickness: volumes are exactly the successive changes of adsorbed volume
    dv = numpy.diff(vu)
    if tname == "zero thickness":
        ctx.case(["psd", dg, "conservation"])
        ctx.count("zero_thickness", method + "/" + geom)
        if not all(close(a, b, 1e-9, 1e-12 * (abs(vu[-1]) + 1)) for a, b in zip(vols, dv)):
            ctx.violation(key + "/zero-thickness-volumes", "with a zero-thickness layer the pore volumes are not the successive changes in adsorbed volume", got=vols[:5], expected=dv[:5], geom=geom)
        if not close(float(numpy.sum(vols)), float(vu[-1] - vu[0]), 1e-9, 1e-12):
            ctx.violation(key + "/zero-thickness-total", "pore volumes do not sum to the total change in adsorbed volume", got=float(numpy.sum(vols)), expected=float(vu[-1] - vu[0]))
        if shape == "single-step":
            nz = numpy.flatnonzero(numpy.abs(vols) > 1e-12)
            enz = numpy.flatnonzero(numpy.abs(dv) > 1e-12)
            ctx.case(["psd", dg, "single-step"])
            if list(nz) != list(enz):
                ctx.violation(key + "/single-step-peak", "a single condensation step does not give a single peak at the Kelvin-predicted width", nonzero_bins=nz, expected_bins=enz)
            elif len(nz) == 1 and not close(widths[nz[0]], w_all[nz[0]], 1e-9):
                ctx.violation(key + "/single-step-width", "the single peak is not at the Kelvin-predicted width", got=widths[nz[0]], expected=w_all[nz[0]])
    # (3) distribution x width increments = volumes
    ctx.case(["psd", dg, "distribution"])
    dw = numpy.diff(w_all)
    if numpy.all(numpy.abs(dw) > 0):
        if not all(close(a * b, c, 1e-9, 1e-12 * (abs(vu[-1]) + 1)) for a, b, c in zip(dist, dw, vols)):
            ctx.violation(key + "/distribution-times-dwidth", "distribution times the width increments differs from the pore volumes", dist=dist[:4], dw=dw[:4], vols=vols[:4])
    # (4) cumulative
    ctx.case(["psd", dg, "cumulative"])
    if not close(cum[-1], vu[-1], 1e-9, 1e-12 * big if False else 1e-12):
        ctx.violation(key + "/cumulative-end", "the cumulative curve does not end at the volume adsorbed at the highest pressure used", got=cum[-1], expected=vu[-1])
    big = float(numpy.max(numpy.abs(cum))) + float(numpy.max(numpy.abs(vols))) + 1.0  # differences of large numbers: absolute floor
    if not all(close(a, b, 1e-9, 1e-12 * big) for a, b in zip(numpy.diff(cum), vols[1:])):
        ctx.violation(key + "/cumulative-increments", "increments of the cumulative curve are not the pore volumes", got=numpy.diff(cum)[:4], expected=vols[1:5])
    if not close(float(out["pore_area_total"]), float(numpy.sum(out["pore_areas"])), 1e-9, 1e-12 * float(numpy.max(numpy.abs(out["pore_areas"])) + 1)):
        ctx.violation(key + "/area-total", "total pore area is not the sum of the pore areas")
    # low-level function with the same models gives the same arrays
    tm = get_thickness_model(tname)
    km = get_kelvin_model(kname, meniscus_geometry=men, temperature=T, liquid_density=rho, adsorbate_molar_mass=M, adsorbate_surface_tension=gamma)
    low = {"pygaps-DH": pm.psd_pygapsdh, "BJH": pm.psd_bjh, "DH": pm.psd_dollimore_heal}[method]
    res2 = _call(low, vu, pu, geom, tm, km)
    ctx.case(["psd", dg, "low-level"])
    if res2[0] != "ok" or not all(close(a, b, 1e-9, 1e-13) for a, b in zip(res2[1]["pore_volumes"], vols)):
        ctx.violation(key + "/low-level-differs", "the low-level function gives different pore volumes for the same window", exc=res2[1] if res2[0] != "ok" else None)
    if r.random() < 0.02:
        ctx.sample({"config": {k: (v if not isinstance(v, tuple) else list(v)) for k, v in kw.items()}, "n": n, "shape": shape, "adsorbate": props, "T": T})


def _run_kelvin(case, ctx):
    from pygaps.characterisation.models_kelvin import kelvin_radius
    from pygaps.characterisation.models_kelvin import kelvin_radius_kjs
    r = gen.rng(case["seed"], "k")
    M, rho, gamma, T = gen.log_uniform(r, 10, 200), r.uniform(0.4, 2.0), r.uniform(3, 80), (r.uniform(60, 320) if r.random() < 0.5 else r.choice([77.355, 87.3, 298.15]))
    p = numpy.array(sorted(r.uniform(1e-4, 0.9999) for _ in range(12)))
    for men, f in F_MENISCUS.items():
        exp = _kelvin(p, men, T, rho, M, gamma)
        for kind, arg in (("array", p), ("scalar", float(p[3])), ("list-elem", numpy.float64(p[7]))):
            got = _call(kelvin_radius, arg, men, T, rho, M, gamma)
            ctx.case(["kelvin", men, kind, case["seed"]])
            ctx.count("kelvin", men)
            e = exp if kind == "array" else exp[3] if kind == "scalar" else exp[7]
            if got[0] != "ok" or not numpy.allclose(numpy.asarray(got[1], dtype=float), e, rtol=1e-10, atol=0):
                ctx.violation("kelvin_radius/%s" % men, "Kelvin radius does not obey the Kelvin equation", got=got[1], expected=e, kind=kind)
        # inverse statement: ln(p) = -2 gamma Vm / (f r R T)
        got = _call(kelvin_radius, p, men, T, rho, M, gamma)
        if got[0] == "ok":
            back = numpy.exp(-2 * gamma * (M / rho) / (f * numpy.asarray(got[1]) * R_GAS * T))
            if not numpy.allclose(back, p, rtol=1e-9):
                ctx.violation("kelvin_radius/%s/inverse" % men, "radius does not reproduce the pressure through the Kelvin equation", back=back[:3], p=p[:3])
    exp = _kelvin(p, "hemispherical", T, rho, M, gamma, kjs=True)  # KJS: 2 gamma Vm / (RT ln p0/p) + 0.3 nm
    got = _call(kelvin_radius_kjs, p, "cylindrical", T, rho, M, gamma)
    ctx.case(["kelvin", "kjs", case["seed"]])
    if got[0] != "ok" or not numpy.allclose(numpy.asarray(got[1], dtype=float), exp, rtol=1e-10):
        ctx.violation("kelvin_radius_kjs/value", "KJS radius is not the hemispherical Kelvin radius + 0.3 nm", got=got[1], expected=exp)
    for men in ("hemispherical", "hemicylindrical"):
        got = _call(kelvin_radius_kjs, p, men, T, rho, M, gamma)
        ctx.case(["kelvin", "kjs-refusal", men])
        if got[0] == "ok":
            ctx.count("tabulated_only", "kelvin_radius_kjs with %s meniscus returned a value" % men)


def finalize(ctx):
    reasons = []
    cfg = ctx.tables.get("psd_configs", {})
    if len(cfg) < 15:
        reasons.append("fewer than 15 method/geometry/thickness/kelvin configurations analysed (%d)" % len(cfg))
    if sum(ctx.tables.get("zero_thickness", {}).values()) < 30:
        reasons.append("zero-thickness conservation judged fewer than 30 times")
    tab = ctx.tables.get("tabulated_thickness", {})
    for name in TABULATED:
        for where, least in (("inside", 50), ("above-table-end", 10), ("below-table-start", 3)):
            if tab.get("%s/%s" % (name, where), 0) < least:
                reasons.append("tabulated thickness %s judged fewer than %d times %s" % (name, least, where))
    if sum(ctx.tables.get("kelvin", {}).values()) < 100:
        reasons.append("Kelvin equation judged fewer than 100 times")
    for label, (hit, tot) in ctx.reach.items():
        if tot and not hit:
            reasons.append("anchored function %s never entered" % label)
    return reasons
