"""C14 — linearised characterisation methods recover the generating parameters."""

import math

import numpy

from pgverif import gen
from pgverif.core import close
from pgverif.ref import units as RU

LEVEL = "exploration"
RULE = (
    "case = (method, generating parameters, sampling grid of 5-100 increasing relative pressures, limits); the isotherm is "
    "generated exactly from the method's governing equation and analysed through the raw and the isotherm entry points; "
    "evaluations = comparisons of each returned quantity with its generating value, of the fitted index window with the "
    "numpy selection of grid points inside the limits, and of the refusal rule (< 3 points); distinct = (method, entry "
    "point, parameter digest, window size class)"
)
ASSUMPTIONS = [
    "limits are placed strictly between grid points; recovered quantities compared at 1e-7 relative (fitted exponent 1e-3)",
    "Rouquerol window: ends at the maximum of n(1-p) or at the first point after it, starts at the first point with p >= 0.1 p_end",
    "N_A = 6.02214076e23; cross-section, molar mass and liquid density are read from the adsorbate the same way the method does "
    "(their correctness is C20/C01's subject)",
]
NSHARDS = {"quick": 12, "thorough": 16}
TIMEOUT = {"quick": 240, "thorough": 2400}
N_A = 6.02214076e23
R_GAS = 8.31446261815324


def anchors():
    from pygaps.characterisation import alphas_plots as a
    from pygaps.characterisation import area_bet as b
    from pygaps.characterisation import area_lang as l
    from pygaps.characterisation import dr_da_plots as d
    from pygaps.characterisation import t_plots as t
    return [("area_BET", b.area_BET), ("area_BET_raw", b.area_BET_raw), ("area_langmuir", l.area_langmuir), ("area_langmuir_raw", l.area_langmuir_raw), ("t_plot", t.t_plot), ("t_plot_raw", t.t_plot_raw),
            ("alpha_s", a.alpha_s), ("alpha_s_raw", a.alpha_s_raw), ("dr_plot", d.dr_plot), ("da_plot", d.da_plot), ("da_plot_raw", d.da_plot_raw)]


def gen_cases(tier, seed):
    r = gen.rng(seed, "c14")
    n = 60 if tier == "quick" else 6000
    for i in range(20 if tier == "quick" else 600):
        yield {"kind": "tplot_auto", "seed": r.randrange(1 << 30)}
    for kind in ("bet", "langmuir", "tplot", "alphas", "da", "betwindow"):
        for i in range(n):
            yield {"kind": kind, "seed": r.randrange(1 << 30), "window": i % 7 if kind == "langmuir" else i % 6}


def run_case(case, ctx):
    ctx.count("case_kinds", case["kind"])
    globals()["_run_" + case["kind"]](case, ctx)


def _call(fn, *a, **k):
    try:
        with numpy.errstate(all="ignore"):
            return ("ok", fn(*a, **k))
    except Exception as exc:
        return ("exc", exc)


def _quiet(fn, *a, **k):
    """_call with logging silenced and figures closed (verbose analyses print and plot)."""
    import logging
    logging.disable(logging.CRITICAL)
    try:
        return _call(fn, *a, **k)
    finally:
        logging.disable(logging.NOTSET)
        try:
            import matplotlib.pyplot as plt
            plt.close("all")
        except Exception:
            pass


def _is_calc(exc):
    from pygaps.utilities.exceptions import CalculationError
    return isinstance(exc, CalculationError)


def _grid(r, lo=0.01, hi=0.95):
    n = r.choice([5, 6, 8, 12, 25, 60, 100]) if r.random() < 0.6 else r.randint(5, 100)
    style = r.choice(["uniform", "log", "random"])
    if style == "uniform":
        p = numpy.linspace(lo, hi, n)
    elif style == "log":
        p = numpy.exp(numpy.linspace(math.log(lo), math.log(hi), n))
    else:
        p = numpy.array(gen.increasing(r, n, lo, hi))
    return numpy.round(p, 10), style


def _limits(r, p, wclass):
    """Manual limits strictly between grid points giving a window of a chosen size class."""
    n = len(p)
    size = min({0: 0, 1: 1, 2: 2, 3: 3, 4: r.randint(3, n), 5: n}[wclass], n)
    if size == 0:
        # both limits inside one gap between neighbouring points (or below the first point)
        j = r.randint(0, n - 1)
        g_lo = p[j - 1] if j > 0 else p[0] * 0.2
        g_hi = p[j]
        lo, hi = g_lo + 0.3 * (g_hi - g_lo), g_lo + 0.6 * (g_hi - g_lo)
    else:
        start = r.randint(0, n - size)
        end = start + size  # exclusive
        lo = (p[start - 1] + p[start]) / 2 if start > 0 else p[0] * 0.5
        hi = (p[end - 1] + p[end]) / 2 if end < n else p[-1] + (1 - p[-1]) * 0.5
    inside = numpy.flatnonzero((p > lo) & (p < hi))
    return (float(lo), float(hi)), inside


def _iso(p, n_mol_per_g, ads="nitrogen", T=77.355, unit="mol"):
    import pygaps
    return pygaps.PointIsotherm(pressure=list(map(float, p)),
                                loading=list(map(float, n_mol_per_g)),
                                branch="ads",
                                material="verif-c14",
                                adsorbate=ads,
                                pressure_mode="relative",
                                pressure_unit=None,
                                loading_basis="molar",
                                loading_unit=unit,
                                material_basis="mass",
                                material_unit="g",
                                **gen.temp_kw(T))


def _restore(iso, r):
    """Store the isotherm in another (exactly convertible) representation before it is analysed:
    the isotherm entry points must read it back in the units they need."""
    choice = r.randrange(6)
    try:
        if choice == 1:
            iso.convert_loading(basis_to="molar", unit_to=r.choice(["mol", "mmol", "kmol"]))
        elif choice == 2:
            iso.convert_loading(basis_to="mass", unit_to=r.choice(["g", "mg", "kg"]))
        elif choice == 3:
            iso.convert_pressure(mode_to="absolute", unit_to=r.choice(["Pa", "kPa", "bar", "MPa"]))
            iso.convert_loading(basis_to="molar", unit_to=r.choice(["mol", "kmol"]))
        elif choice == 4:
            iso.convert_pressure(mode_to="relative%")  # (results are reported per stored material unit: not varied)
        elif choice == 5:
            iso.convert_loading(basis_to="volume_liquid", unit_to="cm3")
    except Exception:
        pass
    return iso


def _window_check(ctx, key, got_min, got_max, inside, p, lim):
    exp = (int(inside[0]), int(inside[-1])) if len(inside) else None
    got = (int(got_min), int(got_max))
    if exp is None or got != exp:
        ctx.violation(key + "/window", "the fitted region is not exactly the points inside the limits", got=got, expected=exp, limits=lim, p=p)


def _cmp(ctx, key, label, got, exp, rt=1e-7):
    if not close(float(got), float(exp), rt, 1e-300):
        ctx.violation("%s/%s" % (key, label), "recovered %s differs from the generating value" % label, got=got, expected=exp)
        return False
    return True


def _auto_window(ctx, p, n, sigma, iso, dg, nm):
    """The automatic (Rouquerol) window: ends where n(1-p) stops increasing, starts at one tenth of that pressure."""
    from pygaps.characterisation.area_bet import area_BET
    from pygaps.characterisation.area_bet import area_BET_raw
    roq = n * (1 - p)
    k = None
    for i in range(len(roq) - 1):
        if roq[i] > roq[i + 1]:
            k = i
            break
    ends = {len(p) - 1} if k is None else {k, k + 1}
    for entry in ("raw", "isotherm"):
        res = _call(area_BET_raw, p, n, sigma, None) if entry == "raw" else _call(area_BET, iso)
        ctx.case(["bet-auto", entry, dg])
        key = "area_BET%s/rouquerol" % ("_raw" if entry == "raw" else "")
        if res[0] != "ok":
            if _is_calc(res[1]):
                ctx.count("bet", "auto-window-refused")
                # legitimate only if every admissible window has fewer than 3 points
                ok_refusal = all((e - int(numpy.searchsorted(p, 0.1 * p[e]))) < 2 for e in ends)
                if not ok_refusal:
                    ctx.violation(key + "/refused", "automatic window refused although it holds at least three points", exc=res[1], ends=sorted(ends))
            else:
                ctx.violation(key + "/raises", "automatic BET window raised", exc=res[1])
            continue
        mn, mx = (res[1][6], res[1][7]) if entry == "raw" else res[1]["p_limit_indices"]
        ctx.count("bet", "auto-window/" + ("interior-maximum" if k is not None else "no-maximum"))
        if int(mx) not in ends:
            ctx.violation(key + "/end", "automatic window does not end where n(1-p) stops increasing", got=int(mx), allowed=sorted(ends), roq=roq[max(0, int(mx) - 2):int(mx) + 3])
        elif int(mn) != int(numpy.searchsorted(p, 0.1 * p[int(mx)])):
            ctx.violation(key + "/start", "automatic window does not start at one tenth of its end pressure", got=int(mn), expected=int(numpy.searchsorted(p, 0.1 * p[int(mx)])))
        n_mono = res[1][2] if entry == "raw" else res[1]["n_monolayer"]
        if nm is not None:
            _cmp(ctx, key, "n_monolayer", n_mono, nm, 1e-6)


def _run_betwindow(case, ctx):
    """Type I / finite-layer shaped data, for which n(1-p) has an interior maximum: only the window rule is judged."""
    import pygaps
    r = gen.rng(case["seed"], "bw")
    nm = gen.log_uniform(r, 1e-4, 1e-1)
    ads = r.choice(["nitrogen", "argon", "krypton"])
    T = {"nitrogen": 77.355, "argon": 87.3, "krypton": 120.0}[ads]
    sigma = pygaps.Adsorbate.find(ads).get_prop("cross_sectional_area")
    K = gen.log_uniform(r, 5, 400)
    # dense at low pressure, coarse around the maximum: points fall between one tenth of neighbouring candidates for the window end
    low = numpy.exp(numpy.linspace(math.log(1e-3), math.log(0.06), r.randint(25, 60)))
    high, x = [], 0.06
    while True:
        x += r.uniform(0.01, 0.12)
        if x > 0.9:
            break
        high.append(x)
    p = numpy.concatenate([low, numpy.array(high)])
    shape = r.choice(["langmuir", "two-layer", "capped"])
    if shape == "langmuir":
        n = nm * K * p / (1 + K * p)
    elif shape == "two-layer":  # BET with at most two layers
        n = nm * K * p / (1 - p) * (1 - 3 * p**2 + 2 * p**3) / (1 + (K - 1) * p - K * p**3)
    else:
        n = nm * K * p / ((1 - p) * (1 - p + K * p)) * (1 - p)**r.uniform(1.2, 2.5)
    if not (numpy.all(numpy.isfinite(n)) and numpy.all(n > 0)):
        ctx.count("skipped", "betwindow-nonpositive")
        return
    from pgverif.core import _h
    dg = _h([nm, K, shape, len(p)])
    iso = _restore(_iso(p, n, ads, T), r)
    ctx.count("betwindow", shape)
    _auto_window(ctx, p, n, sigma, iso, dg, None)


# ------------------------------------------------------------------ BET


def _run_bet(case, ctx):
    """(wrapper) every third case the user has set another cross-sectional area on the adsorbate: the area follows it."""
    import pygaps
    r = gen.rng(case["seed"], "bet")
    gen.log_uniform(r, 1e-4, 1e-1)
    gen.log_uniform(r, 2, 2000)
    ads = r.choice(["nitrogen", "argon", "krypton", "carbon dioxide"])
    a_obj = pygaps.Adsorbate.find(ads)
    old = a_obj.properties["cross_sectional_area"]
    if case["seed"] % 3 == 0:
        a_obj.properties["cross_sectional_area"] = round(old * gen.rng(case["seed"], "sigma").uniform(0.5, 2.0), 4)
        ctx.count("bet", "cross-sectional-area-set-by-the-user")
    try:
        _run_bet_body(case, ctx)
    finally:
        a_obj.properties["cross_sectional_area"] = old


def _run_bet_body(case, ctx):
    import pygaps
    from pygaps.characterisation.area_bet import area_BET
    from pygaps.characterisation.area_bet import area_BET_raw
    r = gen.rng(case["seed"], "bet")
    nm = gen.log_uniform(r, 1e-4, 1e-1)
    C = gen.log_uniform(r, 2, 2000)
    ads = r.choice(["nitrogen", "argon", "krypton", "carbon dioxide"])
    T = {"nitrogen": 77.355, "argon": 87.3, "krypton": 120.0, "carbon dioxide": 250.0}[ads]
    sigma = pygaps.Adsorbate.find(ads).get_prop("cross_sectional_area")
    p, style = _grid(r, 0.005, 0.9)
    n = nm * C * p / ((1 - p) * (1 - p + C * p))
    lim, inside = _limits(r, p, case["window"])
    from pgverif.core import _h
    dg = _h([nm, C, style, len(p)])
    iso = _restore(_iso(p, n, ads, T), r)
    for entry in ("raw", "isotherm"):
        if entry == "raw":
            res = _call(area_BET_raw, p, n, sigma, lim)
        else:
            res = _call(area_BET, iso, p_limits=lim)
        ctx.case(["bet", entry, dg, case["window"]])
        ctx.count("bet", "%s/window-%d-points" % (entry, len(inside)))
        key = "area_BET%s" % ("_raw" if entry == "raw" else "")
        if len(inside) < 3:
            if res[0] == "ok":
                ctx.violation(key + "/fewer-than-3-points-not-refused", "a BET fit on fewer than three points was not refused", npoints=len(inside), limits=lim)
            elif not _is_calc(res[1]):
                ctx.violation(key + "/fewer-than-3-points-wrong-error", "refused with %s instead of a calculation error" % type(res[1]).__name__, exc=res[1])
            continue
        if res[0] != "ok":
            ctx.violation(key + "/raises", "BET analysis of exact BET data raised", exc=res[1], nm=nm, C=C, limits=lim, npoints=len(inside))
            continue
        if entry == "raw":
            area, c_const, n_mono, p_mono, slope, intercept, mn, mx, corr = res[1]
        else:
            d = res[1]
            area, c_const, n_mono, p_mono, slope, intercept, corr = d["area"], d["c_const"], d["n_monolayer"], d["p_monolayer"], d["bet_slope"], d["bet_intercept"], d["corr_coef"]
            mn, mx = d["p_limit_indices"]
        _window_check(ctx, key, mn, mx, inside, p, lim)
        _cmp(ctx, key, "n_monolayer", n_mono, nm)
        _cmp(ctx, key, "c_const", c_const, C, 1e-6)
        _cmp(ctx, key, "p_monolayer", p_mono, 1 / (math.sqrt(C) + 1), 1e-6)
        _cmp(ctx, key, "area", area, nm * N_A * sigma * 1e-18)
        _cmp(ctx, key, "slope", slope, (C - 1) / (nm * C), 1e-6)
        _cmp(ctx, key, "intercept", intercept, 1 / (nm * C), 1e-6)
        if not corr > 1 - 1e-9:
            ctx.violation(key + "/corr_coef", "correlation coefficient of exactly linear data is not 1", got=corr)
    _auto_window(ctx, p, n, sigma, iso, dg, nm)


# ------------------------------------------------------------------ Langmuir


def _run_langmuir(case, ctx):
    import pygaps
    from pygaps.characterisation.area_lang import area_langmuir
    from pygaps.characterisation.area_lang import area_langmuir_raw
    r = gen.rng(case["seed"], "lang")
    nm = gen.log_uniform(r, 1e-4, 1e-1)
    K = gen.log_uniform(r, 0.5, 500)
    ads = r.choice(["nitrogen", "argon", "carbon dioxide"])
    T = {"nitrogen": 77.355, "argon": 87.3, "carbon dioxide": 250.0}[ads]
    sigma = pygaps.Adsorbate.find(ads).get_prop("cross_sectional_area")
    if case["window"] == 6:
        # no limits given: the documented default window, 5 %-90 % of the pressure range of the data - wherever the recording stops
        top = r.choice([0.95, 0.6, 0.3, 0.1, 0.04])
        p, style = _grid(r, top * 0.005, top)
        lim = None
        lo_, hi_ = 0.05 * float(p[-1]), 0.9 * float(p[-1])
        if any(abs(x - b) <= 1e-9 * b for x in p for b in (lo_, hi_)):
            return  # (a point exactly on a default limit: which side it falls is not what is judged here)
        inside = numpy.flatnonzero((p > lo_) & (p < hi_))
        ctx.count("langmuir", "default-window/data-up-to-%g" % top)
    else:
        p, style = _grid(r, 0.005, 0.95)
        lim, inside = _limits(r, p, case["window"])
    n = nm * K * p / (1 + K * p)
    from pgverif.core import _h
    dg = _h([nm, K, style, len(p)])
    iso = _restore(_iso(p, n, ads, T), r)
    for entry in ("raw", "isotherm"):
        # (every third analysis through the isotherm entry point reports what it does: the numbers returned are the same)
        vb = {"verbose": True} if (entry == "isotherm" and case["seed"] % 3 == 2) else {}
        if vb:
            ctx.count("langmuir", "isotherm/verbose")
        if lim is None:
            res = _call(area_langmuir_raw, p, n, sigma) if entry == "raw" else _quiet(area_langmuir, iso, **vb)
        else:
            res = _call(area_langmuir_raw, p, n, sigma, lim) if entry == "raw" else _quiet(area_langmuir, iso, p_limits=lim, **vb)
        ctx.case(["langmuir", entry, dg, case["window"]])
        ctx.count("langmuir", "%s/window-%d-points" % (entry, len(inside)))
        key = "area_langmuir%s" % ("_raw" if entry == "raw" else "")
        if len(inside) < 3:
            if res[0] == "ok":
                ctx.violation(key + "/fewer-than-3-points-not-refused", "a Langmuir fit on fewer than three points was not refused", npoints=len(inside), limits=lim)
            elif not _is_calc(res[1]):
                ctx.violation(key + "/fewer-than-3-points-wrong-error", "refused with %s instead of a calculation error" % type(res[1]).__name__, exc=res[1])
            continue
        if res[0] != "ok":
            ctx.violation(key + "/raises", "Langmuir analysis of exact Langmuir data raised", exc=res[1], limits=lim)
            continue
        if entry == "raw":
            area, k_const, n_mono, slope, intercept, mn, mx, corr = res[1]
        else:
            d = res[1]
            area, k_const, n_mono, slope, intercept, corr = d["area"], d["langmuir_const"], d["n_monolayer"], d["langmuir_slope"], d["langmuir_intercept"], d["corr_coef"]
            mn, mx = d["p_limit_indices"]
        _window_check(ctx, key, mn, mx, inside, p, lim)
        _cmp(ctx, key, "n_monolayer", n_mono, nm)
        _cmp(ctx, key, "langmuir_const", k_const, K, 1e-6)
        _cmp(ctx, key, "area", area, nm * N_A * sigma * 1e-18)
        _cmp(ctx, key, "slope", slope, 1 / nm, 1e-6)
        _cmp(ctx, key, "intercept", intercept, 1 / (nm * K), 1e-6)


# ------------------------------------------------------------------ t-plot


def _thick(name, p):
    if name == "Halsey":
        return 0.354 * ((-5) / numpy.log(p))**0.333
    return (0.1399 / (0.034 - numpy.log10(p)))**0.5


def _run_tplot(case, ctx):
    import pygaps
    from pygaps.characterisation.models_thickness import get_thickness_model
    from pygaps.characterisation.t_plots import t_plot
    from pygaps.characterisation.t_plots import t_plot_raw
    r = gen.rng(case["seed"], "tp")
    tm = r.choice(["Halsey", "Harkins/Jura"])
    slope = gen.log_uniform(r, 0.05, 50)  # mmol/g/nm
    intercept = r.choice([0.0, gen.log_uniform(r, 0.01, 20)])
    # (difluoromethane: its tabulated molar mass differs from the one of its thermodynamic backend - the analysis, like every
    # conversion of the isotherm, works with the backend's)
    ads, T = r.choice([("nitrogen", 77.355), ("argon", 87.3), ("difluoromethane", 250.0)])
    from pgverif.ref import units as RU_
    fl_ = RU_.fluid(gen.backend_of(ads))
    M, rho = fl_.molar_mass(), fl_.rho_liq(T)
    # (a third of the recordings start in the micropore-filling range, as high-resolution instruments do)
    p, style = _grid(r, r.choice([0.01, 0.01, 1e-5, 1e-6, 3e-7]), 0.95)
    t = _thick(tm, p)
    n = slope * t + intercept  # mmol/g
    # limits in thickness, strictly between points
    wclass = max(case["window"], 2)
    _, inside = _limits(r, p, wclass)
    if len(inside) < 2:
        inside = numpy.arange(min(3, len(p)))
    lo = (t[inside[0] - 1] + t[inside[0]]) / 2 if inside[0] > 0 else t[0] * 0.9
    hi = (t[inside[-1]] + t[inside[-1] + 1]) / 2 if inside[-1] + 1 < len(p) else t[-1] * 1.1
    if case["seed"] % 3 == 0:
        # a window that is open towards zero thickness: lower limit 0 (every point below the upper limit, the first one included)
        lo = r.choice([0, 0.0])
        inside = numpy.arange(0, inside[-1] + 1)
        ctx.count("tplot", "lower-limit-zero/%d-points" % min(len(inside), 4))
    from pgverif.core import _h
    dg = _h([tm, slope, intercept, style, len(p)])
    iso = _restore(_iso(p, n, ads, T, unit="mmol"), r)
    for entry in ("raw", "isotherm"):
        if entry == "raw":
            res = _call(t_plot_raw, n, p, get_thickness_model(tm), rho, M, (lo, hi))
        else:
            res = _call(t_plot, iso, thickness_model=tm, t_limits=(lo, hi))
        ctx.case(["tplot", entry, dg, len(inside)])
        ctx.count("tplot", entry)
        key = "t_plot%s" % ("_raw" if entry == "raw" else "")
        if res[0] != "ok":
            ctx.violation(key + "/raises", "t-plot of exact t-plot data raised", exc=res[1])
            continue
        results, curve = res[1] if entry == "raw" else (res[1]["results"], res[1]["t_curve"])
        if not all(close(x, y, 1e-9) for x, y in zip(curve, t)):
            ctx.violation(key + "/thickness-curve", "thickness curve differs from the model equation", model=tm)
        if not results:
            ctx.violation(key + "/no-result", "no fit returned for exactly linear data inside manual limits", limits=(lo, hi), npoints=len(inside))
            continue
        res0 = results[0]
        if list(map(int, res0["section"])) != list(map(int, inside)):
            ctx.violation(key + "/window", "the fitted region is not exactly the points inside the limits", got=res0["section"], expected=inside)
        _cmp(ctx, key, "slope", res0["slope"], slope)
        if intercept:
            _cmp(ctx, key, "intercept", res0["intercept"], intercept, 1e-6)
        elif abs(res0["intercept"]) > 1e-9 * slope * t[-1]:
            ctx.violation(key + "/intercept", "intercept of data through the origin is not zero", got=res0["intercept"])
        _cmp(ctx, key, "area", res0["area"], slope * M / rho)
        if intercept:
            _cmp(ctx, key, "adsorbed_volume", res0["adsorbed_volume"], intercept * M / rho / 1000, 1e-6)


# ------------------------------------------------------------------ alpha-s


def _run_alphas(case, ctx):
    import pygaps
    from pygaps.characterisation.alphas_plots import alpha_s
    from pygaps.characterisation.alphas_plots import alpha_s_raw
    from pygaps.characterisation.area_bet import area_BET
    r = gen.rng(case["seed"], "as")
    ads, T = r.choice([("nitrogen", 77.355), ("argon", 87.3)])
    a = pygaps.Adsorbate.find(ads)
    M, rho = a.molar_mass(), a.liquid_density(T)
    nm, C = gen.log_uniform(r, 0.5, 20), gen.log_uniform(r, 20, 500)  # reference: a BET isotherm in mmol/g
    p, style = _grid(r, 0.01, 0.9)
    if not (p[0] < 0.4 < p[-1]):
        p = numpy.round(numpy.linspace(0.01, 0.9, len(p)), 10)
    ref_n = nm * C * p / ((1 - p) * (1 - p + C * p))
    # the reference spans a slightly wider range than the sample: a pressure that went through a unit
    # conversion may come back 1 ulp outside an identical range and is then (rightly) refused by the interpolator
    p_ref = numpy.concatenate(([p[0] * 0.5], p, [p[-1] + (1 - p[-1]) * 0.5]))
    # the reference stays in relative pressure / mmol here: how alpha_s reads a reference stored otherwise is C15's subject
    ref = _iso(p_ref, nm * C * p_ref / ((1 - p_ref) * (1 - p_ref + C * p_ref)), ads, T, unit="mmol")
    st, ref_area = _call(lambda: area_BET(_iso(p_ref, nm * C * p_ref / ((1 - p_ref) * (1 - p_ref + C * p_ref)), ads, T, unit="mmol"))["area"])
    if st != "ok":
        ctx.count("skipped", "reference BET area unavailable")
        return
    k = int(numpy.searchsorted(p, 0.4))
    a_point = ref_n[k - 1] + (0.4 - p[k - 1]) * (ref_n[k] - ref_n[k - 1]) / (p[k] - p[k - 1])
    scale = r.choice([1.0, gen.log_uniform(r, 0.1, 10)])
    offset = r.choice([0.0, gen.log_uniform(r, 0.01, 5)])
    n = scale * ref_n + offset
    sample = _restore(_iso(p, n, ads, T, unit="mmol"), r)
    alpha = ref_n / a_point
    wclass = max(case["window"], 3)
    _, inside = _limits(r, p, wclass)
    if len(inside) < 2:
        inside = numpy.arange(min(3, len(p)))
    lo = (alpha[inside[0] - 1] + alpha[inside[0]]) / 2 if inside[0] > 0 else alpha[0] * 0.9
    hi = (alpha[inside[-1]] + alpha[inside[-1] + 1]) / 2 if inside[-1] + 1 < len(p) else alpha[-1] * 1.1
    from pgverif.core import _h
    dg = _h([nm, C, scale, offset, style, len(p)])
    variants = [("isotherm/BET", lambda: alpha_s(sample, reference_isotherm=ref, reference_area="BET", t_limits=(lo, hi)), ref_area),
                ("isotherm/numeric-area", lambda: alpha_s(sample, reference_isotherm=ref, reference_area=float(ref_area), t_limits=(lo, hi)), ref_area),
                ("raw", lambda: alpha_s_raw(n, ref_n, a_point, ref_area, rho, M, t_limits=(lo, hi)), ref_area)]
    # the reference area may also be asked to come from the Langmuir analysis of the *reference*
    from pygaps.characterisation.area_lang import area_langmuir
    stl, ref_area_l = _call(lambda: area_langmuir(_iso(p_ref, nm * C * p_ref / ((1 - p_ref) * (1 - p_ref + C * p_ref)), ads, T, unit="mmol"))["area"])
    if stl == "ok":
        variants.append(("isotherm/langmuir-area", lambda: alpha_s(sample, reference_isotherm=ref, reference_area="langmuir", t_limits=(lo, hi)), ref_area_l))
    if scale == 1.0 and offset == 0.0:
        self_iso = _iso(p, ref_n, ads, T, unit="mmol")
        variants.append(("isotherm/against-itself", lambda: alpha_s(self_iso, reference_isotherm=self_iso, reference_area=float(ref_area), t_limits=(lo, hi)), ref_area))
    for entry, fn, A in variants:
        res = _call(fn)
        ctx.case(["alphas", entry, dg, len(inside)])
        ctx.count("alphas", entry)
        key = "alpha_s/%s" % entry
        if res[0] != "ok":
            ctx.violation(key + "/raises/%s" % type(res[1]).__name__, "alpha-s analysis raised", exc=res[1])
            continue
        results, curve = res[1] if entry == "raw" else (res[1]["results"], res[1]["alpha_curve"])
        if not all(close(x, y, 1e-9) for x, y in zip(curve, alpha)):
            ctx.violation(key + "/alpha-curve", "alpha curve differs from reference loading / loading at the reducing pressure", got=curve[:4], expected=alpha[:4])
            continue
        if not results:
            ctx.violation(key + "/no-result", "no fit returned for exactly linear data inside manual limits")
            continue
        res0 = results[0]
        if list(map(int, res0["section"])) != list(map(int, inside)):
            ctx.violation(key + "/window", "the fitted region is not exactly the points inside the limits", got=res0["section"], expected=inside)
        _cmp(ctx, key, "slope", res0["slope"], scale * a_point)
        _cmp(ctx, key, "area", res0["area"], A * scale)
        if offset:
            _cmp(ctx, key, "adsorbed_volume", res0["adsorbed_volume"], offset * M / rho / 1000, 1e-6)


    # raw arrays are the caller's: the same float array as sample and reference ("against itself"), and one reference array
    # used for two calls
    both = numpy.array(ref_n, dtype=float)
    keep = both.copy()
    ra = _call(lambda: alpha_s_raw(both, both, a_point, ref_area, rho, M, t_limits=(lo, hi)))
    ctx.case(["alphas", "raw/same-array-as-sample-and-reference", dg])
    ctx.count("alphas", "raw/same-array-as-sample-and-reference")
    if not numpy.array_equal(both, keep):
        ctx.violation("alpha_s_raw/writes-into-argument", "the analysis modified an array passed to it", before=keep[:4], after=both[:4])
    elif ra[0] == "ok" and ra[1][0]:
        _cmp(ctx, "alpha_s/raw/against-itself", "slope", ra[1][0][0]["slope"], a_point)
        _cmp(ctx, "alpha_s/raw/against-itself", "area", ra[1][0][0]["area"], ref_area)
    elif ra[0] != "ok":
        ctx.violation("alpha_s/raw/against-itself/raises/%s" % type(ra[1]).__name__, "alpha-s of an array against itself raised", exc=ra[1])
    shared = numpy.array(ref_n, dtype=float)
    for which_call in ("first", "second"):
        rb = _call(lambda: alpha_s_raw(numpy.array(n, dtype=float), shared, a_point, ref_area, rho, M, t_limits=(lo, hi)))
        ctx.case(["alphas", "raw/reference-array-reused", which_call, dg])
        if rb[0] == "ok" and rb[1][0]:
            _cmp(ctx, "alpha_s/raw/reference-array-reused/%s-call" % which_call, "area", rb[1][0][0]["area"], ref_area * scale)
        elif rb[0] != "ok":
            ctx.violation("alpha_s/raw/reference-array-reused/raises/%s" % type(rb[1]).__name__, "alpha-s with a reference array used before raised", exc=rb[1], call=which_call)


def _run_tplot_auto(case, ctx):
    """A microporous material recorded exactly on its two t-plot lines (steep filling line through the origin below the knee,
    external-surface line above it), analysed without limits: among the sections the analysis reports is the external line
    with the generating slope and intercept."""
    from pygaps.characterisation.models_thickness import get_thickness_model
    from pygaps.characterisation.t_plots import t_plot_raw
    r = gen.rng(case["seed"], "tpa")
    p = numpy.linspace(0.005, 0.95, r.choice([80, 100, 120]))
    t = _thick("Harkins/Jura", p)
    s1 = r.choice([10.0, 30.0, 60.0]) * r.uniform(0.9, 1.1)
    s2 = r.uniform(1.0, 2.5)
    knee = r.uniform(0.38, 0.45)
    icpt = (s1 - s2) * knee
    n = numpy.where(t < knee, s1 * t, s2 * t + icpt)
    rho, M = 0.808, 28.0134
    res = _call(t_plot_raw, n, p, get_thickness_model("Harkins/Jura"), rho, M)
    ctx.case(["tplot-auto", case["seed"]])
    ctx.count("tplot", "automatic-sections/steepness-%d" % (10 if s1 < 20 else 30 if s1 < 45 else 60))
    if res[0] != "ok":
        ctx.violation("t_plot_raw/automatic-sections/raises", "the analysis without limits raised on exact two-line data", exc=res[1])
        return
    results = res[1][0]
    hit = [x for x in results if close(x["slope"], s2, 1e-6) and close(x["intercept"], icpt, 1e-6, 1e-9)]
    if not hit:
        ctx.violation("t_plot_raw/automatic-sections/external-line-not-reported", "none of the reported sections is the generating external line", s1=s1, s2=s2, intercept=icpt, knee=knee,
                      reported=[[x["slope"], x["intercept"]] for x in results])
        return
    _cmp(ctx, "t_plot_raw/automatic-sections", "area", hit[-1]["area"], s2 * M / rho)
    _cmp(ctx, "t_plot_raw/automatic-sections", "adsorbed_volume", hit[-1]["adsorbed_volume"], icpt * M / rho / 1000, 1e-6)


# ------------------------------------------------------------------ Dubinin


def _exponent_identifiable(p, v, m):
    """Can 1 - r^2 of ln V against ln(1/p)^m tell m from m (1 +- 1e-3)?  (noise floor of r^2 in doubles ~1e-13)"""
    import scipy.stats
    y = numpy.log(v)
    vals = []
    for f in (1 - 1e-3, 1 + 1e-3):
        x = numpy.log(1 / p)**(m * f)
        vals.append(1 - scipy.stats.linregress(x, y).rvalue**2)
    return min(vals) > 1e-11


def _run_da(case, ctx):
    import pygaps
    from pygaps.characterisation.dr_da_plots import da_plot
    from pygaps.characterisation.dr_da_plots import da_plot_raw
    from pygaps.characterisation.dr_da_plots import dr_plot
    r = gen.rng(case["seed"], "da")
    ads, T = r.choice([("nitrogen", 77.355), ("argon", 87.3), ("carbon dioxide", 273.15)])
    a = pygaps.Adsorbate.find(ads)
    M, rho = a.molar_mass(), a.liquid_density(T)
    V0 = gen.log_uniform(r, 0.05, 2.0)  # cm3/g
    E = gen.log_uniform(r, 2e3, 3e4)  # J/mol
    m = r.choice([2.0, 2.0, round(r.uniform(1.0, 3.0), 3), 1.0, 3.0, 1.5])
    p, style = _grid(r, 1e-6 if r.random() < 0.5 else 1e-3, 0.3)
    n = V0 * rho / M * numpy.exp(-(R_GAS * T * numpy.log(1 / p) / E)**m)  # mol/g
    if n.min() <= 0 or not numpy.all(numpy.isfinite(numpy.log(n))):
        ctx.count("skipped", "underflow")
        return
    lim, inside = _limits(r, p, case["window"])
    from pgverif.core import _h
    dg = _h([V0, E, m, style, len(p)])
    iso = _restore(_iso(p, n, ads, T), r)
    variants = [("da_plot_raw/exp-given", lambda: da_plot_raw(p, n, T, M, rho, m, lim), False), ("da_plot/exp-given", lambda: da_plot(iso, exp=m, p_limits=lim), False),
                ("da_plot_raw/exp-fitted", lambda: da_plot_raw(p, n, T, M, rho, None, lim), True), ("da_plot/exp-fitted", lambda: da_plot(iso, exp=None, p_limits=lim), True)]
    if m == 2.0:
        variants.append(("dr_plot", lambda: dr_plot(iso, p_limits=lim), False))
    # the same data as the *desorption* branch of an isotherm whose adsorption branch follows other parameters
    import pygaps as _pg
    n_other = (V0 * 0.6) * rho / M * numpy.exp(-(R_GAS * T * numpy.log(1 / p) / (E * 1.3))**m)
    if n_other.min() > 0:
        two = _pg.PointIsotherm(pressure=list(map(float, p)) + list(map(float, p[::-1])), loading=list(map(float, n_other)) + list(map(float, n[::-1])), branch=[False] * len(p) + [True] * len(p),
                                material="verif-c14", adsorbate=ads, pressure_mode="relative", pressure_unit=None, loading_basis="molar", loading_unit="mol", material_basis="mass", material_unit="g",
                                **gen.temp_kw(T))
        variants.append(("da_plot/des-branch", lambda: da_plot(two, exp=m, p_limits=lim, branch="des"), False))
        if m == 2.0:
            variants.append(("dr_plot/des-branch", lambda: dr_plot(two, p_limits=lim, branch="des"), False))
    for entry, fn, fitted in variants:
        res = _call(fn)
        ctx.case(["da", entry, dg, case["window"]])
        ctx.count("da", "%s/window-%d-points" % (entry, min(len(inside), 4)))
        key = entry
        if len(inside) < 3:
            if res[0] == "ok":
                ctx.violation(key + "/fewer-than-3-points-not-refused", "a Dubinin fit on fewer than three points was not refused", npoints=len(inside), limits=lim)
            elif not _is_calc(res[1]):
                ctx.violation(key + "/fewer-than-3-points-wrong-error", "refused with %s instead of a calculation error" % type(res[1]).__name__, exc=res[1])
            continue
        if res[0] != "ok":
            ctx.violation(key + "/raises", "Dubinin analysis of exact DA data raised", exc=res[1], m=m, limits=lim, npoints=len(inside))
            continue
        if "raw" in entry:
            vol, pot, ex, slope, intercept, mn, mx, corr = res[1]
        else:
            d = res[1]
            vol, pot, slope, intercept, corr = d["pore_volume"], d["adsorption_potential"], d["slope"], d["intercept"], d["corr_coef"]
            mn, mx = d["p_limits"]
            ex = d.get("exponent", m)
        _window_check(ctx, key, mn, mx, inside, p, lim)
        rt = 1e-7 if not fitted else 2e-3
        ok = True
        if fitted and not _exponent_identifiable(p[inside], n[inside] * M / rho, m):
            # (nearly) coincident points in the window: every exponent linearises the data to rounding, the generating one is not determined
            ctx.count("da", "exp-fitted/window-does-not-determine-the-exponent (not judged)")
            continue
        if fitted:
            ok = _cmp(ctx, key, "exponent", ex, m, 1e-3)
        if ok:
            _cmp(ctx, key, "pore_volume", vol, V0, rt)
            _cmp(ctx, key, "adsorption_potential", pot, E / 1000, rt)


def finalize(ctx):
    reasons = []
    if ctx.tables.get("bet", {}).get("auto-window/interior-maximum", 0) < 20:
        reasons.append("fewer than 20 automatic BET windows with an interior maximum of n(1-p)")
    for kind, need in (("bet", 100), ("langmuir", 60), ("tplot", 60), ("alphas", 60), ("da", 100)):
        if sum(ctx.tables.get(kind, {}).values()) < need:
            reasons.append("fewer than %d %s evaluations" % (need, kind))
    for label, (hit, tot) in ctx.reach.items():
        if tot and not hit:
            reasons.append("anchored function %s never entered" % label)
    return reasons
