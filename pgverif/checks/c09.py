"""C09 — database operations are atomic under statement failures and process death.

Fault enumeration: for every operation instance, a dry run numbers the SQL statements the
public call issues; then for every statement position k and every fault kind the database is
restored from its pre-image, the operation is run with that failpoint (process-death cases in
a child process) and the file is inspected through an independent connection.
"""

import copy
import json
import os
import shutil
import subprocess
import sys

from pgverif import dbtools
from pgverif import gen
from pgverif import sqlfault
from pgverif.checks import c08

LEVEL = "fault_enumeration"
LEVEL_TEXT = (
    "Fault enumeration by failpoints on the real code: every SQL statement position of an operation instance x "
    "{IntegrityError, InterfaceError, OperationalError raised instead of the statement; process exit before / after the "
    "statement; exit just before / after the commit}. Exhaustive per operation instance (all positions x kinds), sampled "
    "over operation instances and prior database contents."
)
RULE = (
    "case = one operation instance (operation, item, prior database content); evaluations = faulted executions, each "
    "followed by: content in {pre-image, full effect}, structural invariants, pre-existing items intact, and a repeat of "
    "the same operation without fault that must succeed and give the full effect; distinct = (operation, statement "
    "position, fault kind, pre-image digest); an instance is exhaustive when all positions x kinds were run"
)
ASSUMPTIONS = [
    "process death = os._exit at the failpoint in a forked copy of the worker (no Python-level cleanup or rollback; operating "
    "system intact, page cache survives); power loss / torn writes are outside what a process-level failpoint can produce",
    "content is read through an independent sqlite3 connection after a normal read-write open (so that hot-journal recovery "
    "runs as it would for a user)",
]
NSHARDS = {"quick": 16, "thorough": 16}
TIMEOUT = {"quick": 280, "thorough": 3300}
RAISE_KINDS = ["IntegrityError", "InterfaceError", "OperationalError"]

HERE = os.path.dirname(os.path.dirname(os.path.dirname(os.path.abspath(__file__))))


def setup(ctx):
    dbtools.template()
    sqlfault.install()


def teardown(ctx):
    sqlfault.uninstall()
    dbtools.cleanup()


def anchors():
    from pygaps.parsing import sqlite as s
    out = [("with_connection", s.with_connection)]
    for n in ["adsorbate_to_db", "material_to_db", "isotherm_to_db", "adsorbate_delete_db", "material_delete_db", "isotherm_delete_db"]:
        fn = getattr(s, n)
        out.append((n, getattr(fn, "__wrapped__", fn)))
    return out


OPS = ["ads_insert", "ads_overwrite", "mat_insert", "mat_overwrite", "iso_insert_auto", "iso_insert_plain", "ads_delete", "mat_delete", "iso_delete", "type_insert", "type_delete", "iso_insert_auto",
       "ads_overwrite_same_types", "mat_overwrite_same_types"]


def gen_cases(tier, seed):
    r = gen.rng(seed, "c09")
    n = 18 if tier == "quick" else 224
    for i in range(n):
        yield {"kind": "instance", "op": OPS[i % len(OPS)], "seed": r.randrange(1 << 30), "death": "all"}
    # long recordings: the transaction spills pages into the file before the commit; only process death, at the late statements
    for op, size in ([("iso_insert_auto", 150000)] if tier == "quick" else [("iso_insert_auto", 150000), ("iso_insert_plain", 200000), ("iso_delete", 150000), ("iso_insert_auto", 400000)]):
        yield {"kind": "instance", "op": op, "seed": r.randrange(1 << 30), "death": "late", "raised": False, "big": size}


def run_case(case, ctx):
    ctx.count("case_kinds", case["op"])
    _run_instance(case, ctx)


# ------------------------------------------------------------------ operation instances (JSON-able)


def make_instance(case):
    """(prelude operations, the operation under test) as JSON-able specs."""
    r = gen.rng(case["seed"], "inst")
    ads = [c08._ads_spec(r, k) for k in range(3)]
    mats = [c08._mat_spec(r, k) for k in range(3)]
    isos = [c08._iso_spec(r, i) for i in range(4)]
    for s in isos:
        s["meta"].pop("reading", None)
        # prior content only uses the first two materials / adsorbates: the third is reserved for the operation under test
        s["material"] = r.choice(c08.MAT_NAMES[:2])
        s["adsorbate"] = r.choice(c08.ADS_NAMES[:2])
    if case.get("big"):
        isos[3] = dict(isos[3], kind="point", big=case["big"])
        for k in ("pressure", "loading", "branch", "extra", "model", "params", "prange", "lrange", "rmse"):
            isos[3].pop(k, None)
    prelude = []
    # prior content: some adsorbates, materials and isotherms
    for a in ads[:r.randint(0, 2)]:
        prelude.append({"fn": "adsorbate_to_db", "item": a})
    for m in mats[:r.randint(0, 2)]:
        prelude.append({"fn": "material_to_db", "item": m})
    for s in isos[:r.randint(0, 2)]:
        prelude.append({"fn": "isotherm_to_db", "item": s, "auto": [True, True]})
    op = case["op"]
    target = None
    if op == "ads_insert":
        target = {"fn": "adsorbate_to_db", "item": ads[2]}
    elif op == "ads_overwrite":
        prelude.append({"fn": "adsorbate_to_db", "item": ads[2]})
        new = dict(ads[2], props=dict(ads[2]["props"], molar_mass=99.5, brand_new_property_type="text value"))
        target = {"fn": "adsorbate_to_db", "item": new, "overwrite": True}
    elif op == "ads_overwrite_same_types":
        # new values for the properties the stored adsorbate already has: no property type is created on the way
        prelude.append({"fn": "adsorbate_to_db", "item": ads[2]})
        newp = {k: ((v * 1.5 + 1) if isinstance(v, (int, float)) and not isinstance(v, bool) else (str(v) + "-new" if isinstance(v, str) else v)) for k, v in ads[2]["props"].items()}
        target = {"fn": "adsorbate_to_db", "item": dict(ads[2], props=newp), "overwrite": True}
    elif op == "mat_overwrite_same_types":
        base = dict(mats[2], props=dict(mats[2]["props"], density=2.5, molar_mass=120.0))
        prelude.append({"fn": "material_to_db", "item": base})
        newp = {k: ((v * 1.5 + 1) if isinstance(v, (int, float)) and not isinstance(v, bool) else (str(v) + "-new" if isinstance(v, str) else v)) for k, v in base["props"].items()}
        target = {"fn": "material_to_db", "item": dict(mats[2], props=newp), "overwrite": True}
    elif op == "mat_insert":
        target = {"fn": "material_to_db", "item": dict(mats[2], props=dict(mats[2]["props"], density=2.5, new_type_for_this_material=3.25))}
    elif op == "mat_overwrite":
        prelude.append({"fn": "material_to_db", "item": dict(mats[2], props=dict(mats[2]["props"], density=2.5, molar_mass=120.0))})
        target = {"fn": "material_to_db", "item": dict(mats[2], props={"density": 1.25, "another_new_type": "zz"}), "overwrite": True}
    elif op == "iso_insert_auto":
        spec = dict(isos[3], material=c08.MAT_NAMES[2], adsorbate=c08.ADS_NAMES[2])
        target = {"fn": "isotherm_to_db", "item": spec, "auto": [True, True]}
    elif op == "iso_insert_plain":
        prelude.append({"fn": "adsorbate_to_db", "item": ads[2]})
        prelude.append({"fn": "material_to_db", "item": mats[2]})
        spec = dict(isos[3], material=c08.MAT_NAMES[2], adsorbate=c08.ADS_NAMES[2])
        target = {"fn": "isotherm_to_db", "item": spec, "auto": [False, False]}
    elif op == "ads_delete":
        prelude.append({"fn": "adsorbate_to_db", "item": ads[2]})
        target = {"fn": "adsorbate_delete_db", "name": ads[2]["name"]}
    elif op == "mat_delete":
        prelude.append({"fn": "material_to_db", "item": dict(mats[2], props=dict(mats[2]["props"], density=2.5))})
        target = {"fn": "material_delete_db", "name": mats[2]["name"]}
    elif op == "iso_delete":
        spec = dict(isos[3], material=c08.MAT_NAMES[2], adsorbate=c08.ADS_NAMES[2])
        prelude.append({"fn": "isotherm_to_db", "item": spec, "auto": [True, True]})
        target = {"fn": "isotherm_delete_db", "item": spec}
    elif op == "type_insert":
        target = {"fn": "material_property_type_to_db", "type": "verif-new-type"}
    elif op == "type_delete":
        prelude.append({"fn": "adsorbate_property_type_to_db", "type": "verif-old-type"})
        target = {"fn": "adsorbate_property_type_delete_db", "type": "verif-old-type"}
    return prelude, target


_INTERNAL = [False]


def apply_op(spec, db):
    """Run one operation spec against a database file (real public functions)."""
    from pygaps.parsing import sqlite as S
    if _INTERNAL[0]:
        # the library's own database (here: pointed at the scratch file), addressed by omitting db_path
        keep = S.DATABASE
        S.DATABASE = db
        try:
            return _apply_op(spec, None)
        finally:
            S.DATABASE = keep
    return _apply_op(spec, db)


def _apply_op(spec, db):
    from pygaps.parsing import sqlite as S
    fn = spec["fn"]
    if fn == "adsorbate_to_db":
        return S.adsorbate_to_db(c08._build_ads(spec["item"]), db_path=db, overwrite=spec.get("overwrite", False), verbose=False)
    if fn == "material_to_db":
        return S.material_to_db(c08._build_mat(spec["item"]), db_path=db, overwrite=spec.get("overwrite", False), verbose=False)
    if fn == "isotherm_to_db":
        return S.isotherm_to_db(c08._build_iso(spec["item"]), db_path=db, autoinsert_material=spec["auto"][0], autoinsert_adsorbate=spec["auto"][1], verbose=False)
    if fn == "adsorbate_delete_db":
        return S.adsorbate_delete_db(spec["name"], db_path=db, verbose=False)
    if fn == "material_delete_db":
        return S.material_delete_db(spec["name"], db_path=db, verbose=False)
    if fn == "isotherm_delete_db":
        return S.isotherm_delete_db(c08._build_iso(spec["item"]), db_path=db, verbose=False)
    if fn.endswith("_type_to_db"):
        return getattr(S, fn)({"type": spec["type"]}, db_path=db, verbose=False)
    if fn.endswith("_type_delete_db"):
        return getattr(S, fn)(spec["type"], db_path=db, verbose=False)
    raise KeyError(fn)


def _recover(db):
    """Open read-write like a user would (rolls back a hot journal), then dump independently."""
    import sqlite3
    con = sqlite3.connect(db)
    try:
        con.execute("SELECT count(*) FROM adsorbates").fetchall()
    finally:
        con.close()
    return dbtools.dump(db)


def _child(db, spec, kind, at):
    """Run the operation in a forked child process with a failpoint; returns (exit status, note).

    The child is a fork of this worker (modules loaded, no open connections, session registries as they
    are now); it dies through os._exit at the failpoint, i.e. without any Python-level cleanup, flush or
    rollback - which is what an abrupt process death looks like to the database file.
    """
    sys.stdout.flush()
    sys.stderr.flush()
    pid = os.fork()
    if pid == 0:
        code = 3
        try:
            sqlfault.PLAN.reset(kind, at)
            apply_op(spec, db)
            code = 0
        except BaseException:
            code = 3
        finally:
            os._exit(code)
    _, status = os.waitpid(pid, 0)
    rc = os.waitstatus_to_exitcode(status)
    return rc, ""


def _library_read(db):
    """What a user's next session sees: the library's own readers are the *first* thing to open the file (in a fresh process)."""
    rd, wr = os.pipe()
    sys.stdout.flush()
    sys.stderr.flush()
    pid = os.fork()
    if pid == 0:
        out = {}
        try:
            os.close(rd)
            sqlfault.PLAN.reset()
            from pygaps.parsing import sqlite as S
            for name, fn in (("isotherms", S.isotherms_from_db), ("materials", S.materials_from_db), ("adsorbates", S.adsorbates_from_db), ("material_property_types", S.material_property_types_from_db)):
                try:
                    out[name] = len(fn(db_path=db, verbose=False))
                except BaseException as exc:
                    out[name] = "%s: %s" % (type(exc).__name__, str(exc)[:160])
            os.write(wr, json.dumps(out).encode())
        finally:
            os._exit(0)
    os.close(wr)
    chunks = []
    while True:
        b = os.read(rd, 65536)
        if not b:
            break
        chunks.append(b)
    os.close(rd)
    os.waitpid(pid, 0)
    try:
        return json.loads(b"".join(chunks).decode())
    except ValueError:
        return {"harness": "reader process produced no report"}


def _registry_mark():
    import pygaps
    return len(pygaps.MATERIAL_LIST), len(pygaps.ADSORBATE_LIST)


def _registry_reset(mark):
    import pygaps
    del pygaps.MATERIAL_LIST[mark[0]:]
    del pygaps.ADSORBATE_LIST[mark[1]:]


def _run_instance(case, ctx):
    from pgverif.core import _h
    prelude, target = make_instance(case)
    mark = _registry_mark()
    tag = "%s-%d" % (case["op"], case["seed"])
    pre_db = dbtools.fresh_db("pre-" + tag)
    work = os.path.join(dbtools.tmpdir(), "work-%s.db" % tag)
    try:
        sqlfault.PLAN.reset()
        from pygaps.utilities.exceptions import ParsingError
        for s in prelude:
            try:
                apply_op(s, pre_db)
            except ParsingError:
                pass  # already there (e.g. auto-inserted by an earlier prelude upload): prior content is arbitrary anyway
        pre = dbtools.dump(pre_db)
        pre_digest = _h(pre)[:10]
        _INTERNAL[0] = case["seed"] % 4 == 3
        if _INTERNAL[0]:
            ctx.count("instances", "internal-database-addressed-by-omitting-db_path")
        # ---- dry run: number the statements, obtain the full effect
        shutil.copyfile(pre_db, work)
        reg = _registry_mark()
        sqlfault.PLAN.reset()
        try:
            apply_op(target, work)
        except Exception as exc:
            ctx.error("c09: the operation fails without any fault", exc)
            return
        n_steps = sqlfault.PLAN.step
        trace = list(sqlfault.PLAN.trace)
        _registry_reset(reg)
        full = dbtools.dump(work)
        if full == pre:
            ctx.error("c09: operation has no effect (cannot distinguish pre-image from full effect): %s" % case["op"])
            return
        if sqlfault.PLAN.commits != 1:
            ctx.violation("%s/commits-per-call=%d" % (target["fn"], sqlfault.PLAN.commits), "the public call did not issue exactly one commit", trace=trace[-6:])
        ctx.count("statements_per_operation", "%s=%d" % (case["op"], n_steps))
        ctx.extra["positions"] = ctx.extra.get("positions", 0) + n_steps
        runs = 0

        def inspect(kind, k, outcome, in_process):
            """Oracle on the file after a faulted execution."""
            now = _recover(work)
            where = "%s@%s" % (kind, k)
            stmt = next((t[1] for t in trace if t[0] == k), "")
            key_base = "%s/%s" % (target["fn"], kind)
            ctx.case([case["op"], kind, k, pre_digest])
            ctx.count("fault_matrix", "%s/%s" % (case["op"], kind))
            if now.get("orphans") or now.get("fk_violations") or now.get("integrity") != ["ok"]:
                ctx.violation(key_base + "/structural-damage", "orphan rows / foreign-key violations / integrity errors after the fault", where=where, statement=stmt, orphans=now.get("orphans")[:4], fk=now.get("fk_violations")[:4], integrity=now.get("integrity")[:2])
                return False
            allowed_full = kind == "exit_after_commit"
            if now == pre:
                state = "pre-image"
            elif now == full:
                state = "full-effect"
            else:
                ctx.violation(key_base + "/partial-effect", "the file holds neither the pre-image nor the complete effect of the operation", where=where, statement=stmt, outcome=outcome, diff_to_pre=dbtools.diff_dump(pre, now), diff_to_full=dbtools.diff_dump(full, now))
                return False
            ctx.count("states_after_fault", "%s/%s" % (kind, state))
            if state == "full-effect" and not allowed_full:
                ctx.violation(key_base + "/effect-visible-although-call-failed", "the complete effect is in the file although the call did not return", where=where, statement=stmt, outcome=outcome)
                return False
            if kind == "exit_after_commit" and state != "full-effect":
                ctx.violation(key_base + "/committed-effect-lost", "the effect is missing although the process died after the commit", where=where)
                return False
            return state

        kept_exceptions = []
        # ---- raised faults: every statement position x 3 kinds, in this process
        for k in (range(1, n_steps + 1) if case.get("raised", True) else ()):
            for kind in RAISE_KINDS:
                shutil.copyfile(pre_db, work)
                reg = _registry_mark()
                sqlfault.PLAN.reset(kind, k)
                try:
                    apply_op(target, work)
                    outcome = "returned"
                except Exception as exc:
                    outcome = type(exc).__name__
                    kept_exceptions.append(exc)  # the caller holds on to the error (a log, pytest's excinfo, an interactive session)
                fired = sqlfault.PLAN.fired
                sqlfault.PLAN.reset()
                runs += 1
                ctx.hook("raised-fault-executions")
                if not fired:
                    ctx.error("c09: failpoint %s@%d never fired (statement numbering is not deterministic?)" % (kind, k))
                    _registry_reset(reg)
                    continue
                if outcome == "returned":
                    # the library swallowed the injected error: then the call claims success and the full effect must be there
                    state = _recover(work)
                    ctx.case([case["op"], kind, k, pre_digest])
                    ctx.count("fault_matrix", "%s/%s" % (case["op"], kind))
                    ctx.count("states_after_fault", "%s/swallowed" % kind)
                    if state != full:
                        ctx.violation("%s/%s/error-swallowed-with-partial-effect" % (target["fn"], kind), "an injected error was swallowed, the call returned, but the effect is incomplete", where="%s@%d" % (kind, k), diff_to_full=dbtools.diff_dump(full, state))
                    _registry_reset(reg)
                    continue
                state = inspect(kind, k, outcome, True)
                # ---- the same operation can be repeated successfully afterwards (same process: what the session remembers matters)
                if state == "pre-image":
                    try:
                        apply_op(target, work)
                        rep = "ok"
                    except Exception as exc:
                        rep = exc
                    after = _recover(work)
                    ctx.count("repeats", "in-process/" + ("ok" if rep == "ok" else type(rep).__name__))
                    if rep != "ok":
                        ctx.violation("%s/%s/repeat-refused" % (target["fn"], kind), "after the failed call the same operation cannot be repeated successfully", where="%s@%d" % (kind, k), statement=next((t[1] for t in trace if t[0] == k), ""), exc=rep)
                    elif after != full:
                        ctx.violation("%s/%s/repeat-incomplete" % (target["fn"], kind), "the repeated operation does not yield the full effect", where="%s@%d" % (kind, k), diff=dbtools.diff_dump(full, after))
                _registry_reset(reg)
                del kept_exceptions[:-3]
        # ---- process death: before / after every statement, around the commit (child processes)
        if case["death"] == "all":
            positions = list(range(1, n_steps + 1))
        elif case["death"] == "late":
            positions = sorted({max(1, n_steps - 2), max(1, n_steps - 1), n_steps})
        else:
            positions = sorted({1, max(1, n_steps // 2), n_steps})
        death = [("exit_before", k) for k in positions] + [("exit_after", k) for k in positions] + [("exit_before_commit", "commit"), ("exit_after_commit", "commit")]
        for kind, k in death:
            shutil.copyfile(pre_db, work)
            rc, tail = _child(work, target, kind, k if isinstance(k, int) else None)
            runs += 1
            ctx.hook("process-death-executions")
            if rc != sqlfault.EXIT_CODE:
                ctx.error("c09: child did not die at the failpoint %s@%s (rc=%s): %s" % (kind, k, rc, tail[-200:]))
                continue
            # every other time the first thing to touch the file after the death is a query through the library
            # (always for the long recordings, whose transactions leave a hot journal behind)
            seen = _library_read(work) if (runs % 2 == 0 or case.get("big")) else None
            state = inspect(kind, k, "process died", False)
            if seen is not None:
                ctx.hook("library-reads-right-after-process-death")
                now = dbtools.dump(work)
                exp = {"isotherms": len(now["isotherms"]), "materials": len(now["materials"]), "adsorbates": len(now["adsorbates"])}
                bad = {n: v for n, v in seen.items() if not isinstance(v, int)}
                if bad:
                    ctx.violation("%s/%s/stored-content-not-retrievable-after-process-death" % (target["fn"], kind), "the library's readers fail on the file a dead process left behind", where="%s@%s" % (kind, k), readers=bad)
                elif state and any(seen.get(n) != v for n, v in exp.items()):
                    ctx.violation("%s/%s/readers-disagree-with-file-after-process-death" % (target["fn"], kind), "the library's readers return a different number of records than the file holds", where="%s@%s" % (kind, k), seen=seen, file=exp)
                ctx.count("reads_after_death", "%s/%s" % (kind, "ok" if not bad else "failed"))
            if state == "pre-image":
                # repeat in a fresh process
                rc2, tail2 = _child(work, target, None, None)
                after = _recover(work)
                ctx.count("repeats", "fresh-process/" + ("ok" if rc2 == 0 else "rc=%s" % rc2))
                if rc2 != 0:
                    ctx.violation("%s/%s/repeat-refused" % (target["fn"], kind), "after the process death the same operation cannot be repeated successfully", where="%s@%s" % (kind, k), output=tail2[-300:])
                elif after != full:
                    ctx.violation("%s/%s/repeat-incomplete" % (target["fn"], kind), "the repeated operation does not yield the full effect", where="%s@%s" % (kind, k), diff=dbtools.diff_dump(full, after))
        ctx.count("instances", "%s/%s" % (case["op"], "all-positions-x-all-kinds" if case["death"] == "all" else ("long-recording-%d-points/death-at-late-statements" % case["big"]) if case.get("big") else "all-positions-x-raised-kinds+death-at-ends"))
        if ctx.extra.get("sampled") is None and runs:
            ctx.extra["sampled"] = 1
            ctx.sample({"operation": target["fn"], "instance": case["op"], "statements": [t for t in trace][:24], "faulted_executions": runs})
    finally:
        _INTERNAL[0] = False
        sqlfault.PLAN.reset()
        _registry_reset(mark)
        for f in (pre_db, work, work + "-journal"):
            try:
                os.unlink(f)
            except OSError:
                pass


def finalize(ctx):
    reasons = []
    if ctx.hooks.get("raised-fault-executions", 0) < 200:
        reasons.append("fewer than 200 raised-fault executions")
    if ctx.hooks.get("process-death-executions", 0) < 40:
        reasons.append("fewer than 40 process-death executions")
    inst = ctx.tables.get("instances", {})
    ops = {k.split("/")[0] for k in inst}
    for need in ("ads_insert", "mat_overwrite", "iso_insert_auto", "iso_delete", "mat_delete"):
        if need not in ops:
            reasons.append("operation instance %s never completed" % need)
    for label, (hit, tot) in ctx.reach.items():
        if tot and not hit:
            reasons.append("anchored function %s never entered" % label)
    return reasons


def coverage_extra(ctx):
    return {
        "exhaustive": False,
        "exhaustive_parts": "per operation instance marked 'all-positions-x-all-kinds': every statement position x 7 fault kinds; "
        "the space of instances and prior contents is sampled",
        "statement_positions_enumerated": int(ctx.extra.get("positions", 0)),
    }
