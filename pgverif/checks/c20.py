"""C20 — shipped adsorbates resolve uniquely; their thermodynamic data are consistent.

Registry part is exhaustive in every run (all shipped adsorbates x all aliases x case
variants, from three sources: in-memory registry, adsorbates.json, default.db read through
an independent sqlite3 connection).  Thermodynamic part samples temperatures.
"""

import copy
import json
import os
import sqlite3
import numpy

from pgverif import gen
from pgverif.core import close
from pgverif.core import repo_root
from pgverif.ref import units as RU

LEVEL = "exploration"
RULE = (
    "registry: every (source, adsorbate, name-or-alias, case variant) lookup is one evaluation, distinct by the "
    "string looked up; thermodynamics: every (backend adsorbate, temperature, property) comparison; fallback: "
    "synthetic adsorbates without/with wrong backend and with partial user properties, and shipped adsorbates "
    "above T_critical; all are non-trivial (each reaches the oracle)"
)
ASSUMPTIONS = [
    "CoolProp PropsSI is the reference for values; identities (rho_mass = rho_molar*M, ordering of pressures) need no reference",
    "temperatures are drawn in (T_triple, T_critical) with a 2 % margin at both ends",
]
NSHARDS = {"quick": 8, "thorough": 16}
TIMEOUT = {"quick": 200, "thorough": 900}


def anchors():
    import pygaps
    from pygaps.core.baseisotherm import BaseIsotherm
    A = pygaps.Adsorbate
    return [("Adsorbate.find", A.find), ("Adsorbate.__eq__", A.__eq__), ("Adsorbate.saturation_pressure", A.saturation_pressure),
            ("Adsorbate.liquid_density", A.liquid_density), ("Adsorbate.gas_density", A.gas_density),
            ("Adsorbate.enthalpy_liquefaction", A.enthalpy_liquefaction), ("BaseIsotherm.adsorbate.setter", BaseIsotherm.adsorbate.fset)]


def _json_entries():
    with open(os.path.join(repo_root(), "src", "pygaps", "data", "adsorbates.json")) as fh:
        return json.load(fh)


def _db_entries():
    path = os.path.join(repo_root(), "src", "pygaps", "data", "default.db")
    con = sqlite3.connect("file:%s?mode=ro" % path, uri=True)
    try:
        rows = con.execute("SELECT id, name FROM adsorbates").fetchall()
        out = []
        for rid, name in rows:
            al = [r[0] for r in con.execute("SELECT value FROM adsorbate_properties WHERE ads_id=? AND type='alias'", (rid, ))]
            be = [r[0] for r in con.execute("SELECT value FROM adsorbate_properties WHERE ads_id=? AND type='backend_name'", (rid, ))]
            out.append({"name": name, "alias": al, "backend_name": be[0] if be else None})
        return out
    finally:
        con.close()


def gen_cases(tier, seed):
    r = gen.rng(seed, "c20")
    js = _json_entries()
    db = _db_entries()
    yield {"kind": "sources", "n_json": len(js), "n_db": len(db)}
    for src, entries in (("json", js), ("db", db)):
        for e in entries:
            yield {"kind": "registry", "source": src, "name": e["name"], "alias": list(e.get("alias") or [])}
    import pygaps
    seen = set()
    for a in pygaps.ADSORBATE_LIST:
        if a.name in seen:
            continue
        seen.add(a.name)
        yield {"kind": "registry", "source": "memory", "name": a.name, "alias": list(a.alias)}
    nT = 8 if tier == "quick" else 64
    for name, b in gen.backend_adsorbates():
        rs = sorted(r.random() for _ in range(nT))
        yield {"kind": "thermo", "ads": name, "fracs": rs}
        yield {"kind": "supercritical", "ads": name, "over": [1.001, 1.05, 1.5]}
    for i in range(6 if tier == "quick" else 60):
        yield {"kind": "fallback", "seed": r.randrange(1 << 30), "variant": i % 6}
    for i in range(6 if tier == "quick" else 80):
        yield {"kind": "relinked", "seed": r.randrange(1 << 30)}


def run_case(case, ctx):
    ctx.count("case_kinds", case["kind"])
    globals()["_run_" + case["kind"]](case, ctx)


def _variants(s):
    out = [s, s.lower(), s.upper(), s.title(), s.swapcase(), s.capitalize()]
    seen, res = set(), []
    for v in out:
        if v not in seen:
            seen.add(v)
            res.append(v)
    return res


def _run_sources(case, ctx):
    import pygaps
    js = {e["name"]: e for e in _json_entries()}
    db = {e["name"]: e for e in _db_entries()}
    mem = {}
    dup = []
    for a in pygaps.ADSORBATE_LIST:
        if a.name in mem:
            dup.append(a.name)
        mem[a.name] = a
    ctx.case(["sources"])
    ctx.count("registry_sizes", "json", len(js))
    ctx.count("registry_sizes", "db", len(db))
    ctx.count("registry_sizes", "memory", len(mem))
    if set(js) != set(db):
        ctx.violation("registry/json-vs-db/names", "adsorbates.json and default.db list different adsorbates", only_json=sorted(set(js) - set(db)), only_db=sorted(set(db) - set(js)))
    if set(db) != set(mem):
        ctx.violation("registry/db-vs-memory/names", "default.db and the loaded registry list different adsorbates", diff=sorted(set(db) ^ set(mem)))
    if dup:
        ctx.violation("registry/duplicate-names", "an adsorbate is loaded twice", dup=dup[:5])
    for n in set(js) & set(db):
        # the name itself always counts as an alias (Adsorbate adds it; the DB stores it explicitly)
        aj = {x.lower() for x in js[n].get("alias") or []} | {n.lower()}
        ad = {x.lower() for x in db[n].get("alias") or []} | {n.lower()}
        ctx.case(["sources-alias", n])
        if aj != ad:
            ctx.violation("registry/json-vs-db/aliases", "alias lists differ between adsorbates.json and default.db", name=n, diff=sorted(aj ^ ad))
        if (js[n].get("backend_name") or None) != (db[n].get("backend_name") or None):
            ctx.violation("registry/json-vs-db/backend", "backend_name differs between JSON and DB", name=n)


def _run_registry(case, ctx):
    import pygaps
    from pygaps.core.baseisotherm import BaseIsotherm
    owner = case["name"]
    strings = [owner] + [a for a in case["alias"] if a.lower() != owner.lower()]
    if case["source"] == "json":
        # an adsorbate object built from the entry of the source list itself (what db_create and users of the list do) answers to its
        # name and to every alias, in any letter case
        entry = next((e for e in _json_entries() if e["name"] == owner), None)
        try:
            obj = pygaps.Adsorbate(store=False, **copy.deepcopy(entry))
        except Exception as exc:
            ctx.violation("Adsorbate/json-entry-cannot-be-built", "an entry of the shipped source list cannot be turned into an Adsorbate", owner=owner, exc=exc)
            obj = None
        if obj is not None:
            for s in strings:
                for v in _variants(s):
                    ctx.case(["json-object", v])
                    ctx.count("lookups", "json-object")
                    if not (obj == v):
                        ctx.violation("Adsorbate.__eq__/json-entry-does-not-answer-to-its-own-name-or-alias", "an adsorbate built from the source list does not compare equal to one of its own designations",
                                      owner=owner, designation=v, aliases=list(obj.alias)[:8])
                        break
    for s in strings:
        # (the designation as plain text in several letter cases, and as an element of a numpy string array / a pandas column:
        # a str subclass is a string)
        for v in list(_variants(s)) + [numpy.array([s, "x"])[0]]:
            ctx.case(["registry", v, type(v).__name__])
            ctx.count("lookups", case["source"] + ("" if type(v) is str else "/" + type(v).__name__))
            try:
                found = pygaps.Adsorbate.find(v)
            except Exception as exc:
                ctx.violation("Adsorbate.find/not-found", "a shipped name/alias cannot be found", source=case["source"], looked_up=v, owner=owner, exc=exc)
                continue
            matches = [a.name for a in pygaps.ADSORBATE_LIST if a == v]
            if found.name != owner:
                ctx.violation("Adsorbate.find/wrong-owner", "a name/alias resolves to another adsorbate", source=case["source"], looked_up=v, owner=owner, found=found.name, all_matches=matches)
                continue
            if len(set(matches)) != 1:
                ctx.violation("Adsorbate.find/ambiguous", "a name/alias designates more than one adsorbate", source=case["source"], looked_up=v, matches=matches)
                continue
            try:
                iso = BaseIsotherm(material="verif-m", adsorbate=v, temperature=300.0)
                linked = iso.adsorbate
            except Exception as exc:
                ctx.violation("BaseIsotherm.adsorbate/raises", "isotherm creation with a shipped adsorbate string failed", looked_up=v, exc=exc)
                continue
            ctx.hook("isotherm_linkage")
            if linked is not found:
                ctx.violation("BaseIsotherm.adsorbate/not-linked", "isotherm created with the string is not linked to the registry adsorbate", looked_up=v, linked=repr(linked))


def _run_relinked(case, ctx):
    """The list entry a name designates is exchanged during the session (the list re-read from a database, an entry replaced by an
    updated copy): isotherms created afterwards are linked to the adsorbate the name designates *now*."""
    import pygaps
    from pygaps.core.baseisotherm import BaseIsotherm
    r = gen.rng(case["seed"], "rl")
    idx = r.randrange(len(pygaps.ADSORBATE_LIST))
    old = pygaps.ADSORBATE_LIST[idx]
    designation = r.choice([old.name] + list(old.alias)[:3])
    designation = r.choice([designation, designation.upper(), designation.lower()])
    try:
        if pygaps.Adsorbate.find(designation) is not old:
            return
        first = BaseIsotherm(material="verif-m", adsorbate=designation, temperature=300.0)
        d = copy.deepcopy(old.to_dict())
        d["cross_sectional_area"] = 0.1234
        new = pygaps.Adsorbate(store=False, **d)
        pygaps.ADSORBATE_LIST[idx] = new
        try:
            found = pygaps.Adsorbate.find(designation)
            second = BaseIsotherm(material="verif-m", adsorbate=designation, temperature=300.0)
            ctx.case(["relinked", designation])
            ctx.count("lookups", "after-the-list-entry-was-exchanged")
            ctx.hook("isotherm_linkage")
            if found is not new:
                ctx.violation("Adsorbate.find/stale-after-list-entry-exchanged", "the name resolves to an object that is no longer in the list", looked_up=designation)
            elif second.adsorbate is not new:
                ctx.violation("BaseIsotherm.adsorbate/not-linked/after-list-entry-exchanged", "an isotherm created after the list entry was exchanged is linked to the adsorbate that is no longer listed",
                              looked_up=designation, linked_is_old=second.adsorbate is old, first_was_old=first.adsorbate is old)
        finally:
            pygaps.ADSORBATE_LIST[idx] = old
    except Exception as exc:
        ctx.violation("BaseIsotherm.adsorbate/raises/after-list-entry-exchanged", "creating an isotherm after exchanging a list entry raised", exc=exc, looked_up=designation)


def _call(fn, *a, **k):
    try:
        return ("ok", fn(*a, **k))
    except Exception as exc:
        return ("exc", exc)


def _is_calc_error(exc):
    from pygaps.utilities.exceptions import CalculationError
    return isinstance(exc, CalculationError)


def _run_thermo(case, ctx):
    import pygaps
    ads0 = pygaps.Adsorbate.find(case["ads"])
    stored_before = copy.deepcopy(dict(ads0.properties))
    _run_thermo_body(case, ctx)
    # asking an adsorbate for its thermodynamic data does not rewrite its tabulated properties (they are documented in other units
    # than the getters return, are exported with it and uploaded with its isotherms)
    ctx.case(["thermo-leaves-tabulated-properties", case["ads"]])
    stored_after = dict(ads0.properties)
    if stored_after != stored_before:
        changed = sorted(k for k in set(stored_before) | set(stored_after) if stored_before.get(k) != stored_after.get(k))
        ctx.violation("Adsorbate/getters-rewrite-tabulated-properties", "after its thermodynamic getters were called the adsorbate's tabulated properties have changed", ads=case["ads"], changed=changed,
                      now={k: stored_after.get(k) for k in changed})
        for k in changed:  # (restore: the object is shared)
            if k in stored_before:
                ads0.properties[k] = stored_before[k]
            else:
                ads0.properties.pop(k, None)


def _run_thermo_body(case, ctx):
    import pygaps
    ads = pygaps.Adsorbate.find(case["ads"])
    fl = RU.fluid(ads.properties["backend_name"])
    lo, hi = fl.t_triple(), fl.t_crit()
    # across the range, and right up to its ends (0.05 % from the triple point and from the critical point)
    Ts = sorted([lo + (hi - lo) * (0.02 + 0.96 * f) for f in case["fracs"]] + [lo + (hi - lo) * 0.0005, lo + (hi - lo) * 0.995, lo + (hi - lo) * 0.9995])
    name = case["ads"]
    st, ptr = _call(ads.p_triple)
    st2, pc = _call(ads.p_critical)
    st3, M = _call(ads.molar_mass)
    if "exc" in (st, st2, st3):
        ctx.violation("Adsorbate.constants/raises", "p_triple/p_critical/molar_mass raised for a backend adsorbate", ads=name, got=[ptr, pc, M])
        return
    for label, got, exp in (("p_triple", ptr, fl._p("P", lo, 0) if False else None), ("p_critical", pc, fl.p_crit())):
        if exp is not None and not close(got, exp, 1e-9):
            ctx.violation("Adsorbate.%s/value" % label, "constant differs from PropsSI", ads=name, got=got, expected=exp)
    st, tt = _call(ads.t_triple)
    st2, tc = _call(ads.t_critical)
    if st != "ok" or st2 != "ok" or not close(tt, lo, 1e-9) or not close(tc, hi, 1e-9):
        ctx.violation("Adsorbate.t_triple_t_critical/value", "triple/critical temperature differ from PropsSI", ads=name, got=[tt, tc], expected=[lo, hi])
    prev = None
    for T in Ts:
        vals = {}
        for m in ("saturation_pressure", "liquid_density", "liquid_molar_density", "gas_density", "gas_molar_density", "enthalpy_vaporisation", "enthalpy_liquefaction", "surface_tension"):
            vals[m] = _call(getattr(ads, m), T)
        bad = [m for m, (s, _) in vals.items() if s != "ok" and m != "surface_tension"]
        ctx.case(["thermo", name, round(T, 6)])
        ctx.count("thermo_points", "evaluated")
        if bad:
            # a refusal must be a CalculationError; the backend failing inside (Tt,Tc) is tabulated, not judged
            for m in bad:
                if not _is_calc_error(vals[m][1]):
                    ctx.violation("Adsorbate.%s/wrong-error" % m, "property raised something other than CalculationError", ads=name, T=T, exc=vals[m][1])
                ctx.count("thermo_refused", "%s" % m)
            continue
        v = {m: x for m, (s, x) in vals.items() if s == "ok"}
        # mass density = molar density * molar mass, liquid and vapour
        for ph in ("liquid", "gas"):
            if not close(v[ph + "_density"], v[ph + "_molar_density"] * M, 1e-9):
                ctx.violation("Adsorbate.%s_density/mass-vs-molar" % ph, "mass density != molar density x molar mass", ads=name, T=T, rho=v[ph + "_density"], rho_molar=v[ph + "_molar_density"], M=M)
        # values vs PropsSI
        try:
            ref = {
                "saturation_pressure": fl.p_sat(T),
                "liquid_density": fl.rho_liq(T),
                "gas_density": fl.rho_gas(T),
                "liquid_molar_density": fl.rho_liq_molar(T),
                "gas_molar_density": fl.rho_gas_molar(T),
                "enthalpy_vaporisation": fl.h_vap(T),
                "enthalpy_liquefaction": fl.h_vap(T)
            }
        except Exception:
            ref = {}
            ctx.count("reference_unavailable", name)
        for m, e in ref.items():
            ctx.hook("vs_propssi")
            if not close(v[m], e, 1e-9):
                ctx.violation("Adsorbate.%s/value" % m, "value differs from PropsSI", ads=name, T=T, got=v[m], expected=e)
        psat = v["saturation_pressure"]
        if not (ptr * (1 - 1e-9) <= psat <= pc * (1 + 1e-9)):
            # which side, and where: the backend's own saturation curve dips below its triple-pressure constant just above the triple
            # point for a few fluids (pyGAPS passes both numbers through unchanged - checked against PropsSI above)
            side = "below-triple-pressure" + ("-within-1%-of-the-triple-point" if T < lo + 0.01 * (hi - lo) else "") if psat < ptr else "above-critical-pressure"
            ctx.violation("Adsorbate.saturation_pressure/%s/%s" % (side, name), "saturation pressure not between triple and critical pressure", ads=name, T=T, p_sat=psat, p_triple=ptr, p_critical=pc)
        if prev is not None and not (psat > prev[1]) and T > prev[0]:
            ctx.violation("Adsorbate.saturation_pressure/not-increasing", "saturation pressure does not rise with temperature", ads=name, T=[prev[0], T], p=[prev[1], psat])
        prev = (T, psat)
        if not (v["enthalpy_vaporisation"] > 0):
            ctx.violation("Adsorbate.enthalpy_vaporisation/non-positive", "vaporisation enthalpy not positive", ads=name, T=T, got=v["enthalpy_vaporisation"])
        if v["enthalpy_vaporisation"] != v["enthalpy_liquefaction"]:
            ctx.violation("Adsorbate.enthalpy_vaporisation/alias", "enthalpy_vaporisation != enthalpy_liquefaction", ads=name, T=T)
        # the same enthalpy asked for by pressure (at the saturation pressure of this temperature)
        stp, hp = _call(ads.enthalpy_vaporisation, press=psat)
        ctx.hook("enthalpy_by_pressure")
        if stp != "ok" or not close(hp, v["enthalpy_vaporisation"], 1e-6):
            ctx.violation("Adsorbate.enthalpy_vaporisation/by-pressure", "vaporisation enthalpy asked for by pressure differs from the one asked for by temperature", ads=name, T=T, by_pressure=hp, by_temperature=v["enthalpy_vaporisation"])
        if not (v["liquid_density"] > v["gas_density"] > 0):
            ctx.violation("Adsorbate.density/liquid<=gas", "liquid density not above vapour density", ads=name, T=T, liq=v["liquid_density"], gas=v["gas_density"])
        for unit, pa in RU.PA.items():
            st, got = _call(ads.saturation_pressure, T, unit)
            st2, got2 = _call(ads.pressure_saturation, T, unit)
            ctx.hook("unit_argument")
            if st != "ok" or not close(got, psat / pa, RU.rtol_for(unit)) or st2 != "ok" or got2 != got:
                ctx.violation("Adsorbate.saturation_pressure/unit", "unit argument not honoured", ads=name, T=T, unit=unit, got=got, expected=psat / pa)


def _run_supercritical(case, ctx):
    """Backend cannot provide saturation properties above T_c: user value or CalculationError."""
    import pygaps
    ads = pygaps.Adsorbate.find(case["ads"])
    fl = RU.fluid(ads.properties["backend_name"])
    for over in case["over"]:
        T = fl.t_crit() * over
        for m, prop in (("saturation_pressure", "saturation_pressure"), ("liquid_density", "liquid_density"), ("gas_density", "gas_density"),
                        ("liquid_molar_density", "liquid_molar_density"), ("gas_molar_density", "gas_molar_density"), ("enthalpy_liquefaction", "enthalpy_liquefaction"),
                        ("surface_tension", "surface_tension")):
            st, got = _call(getattr(ads, m), T)
            ctx.case(["supercritical", case["ads"], over, m])
            user = ads.properties.get(prop)
            if st == "ok":
                if user is None or not close(got, user, 1e-12):
                    ctx.violation("Adsorbate.%s/supercritical-number" % m, "a number was returned above T_critical that is not the user-supplied property", ads=case["ads"], T=T, got=got, user=user)
                else:
                    ctx.count("supercritical", "user-value")
            else:
                if user is not None:
                    ctx.violation("Adsorbate.%s/supercritical-ignores-user" % m, "user-supplied property not returned when the backend fails", ads=case["ads"], T=T, exc=got)
                elif not _is_calc_error(got):
                    ctx.violation("Adsorbate.%s/supercritical-wrong-error" % m, "backend failure not reported as CalculationError", ads=case["ads"], T=T, exc=got)
                else:
                    ctx.count("supercritical", "CalculationError")
    # ... and requests the backend could not answer leave the adsorbate as it was: the next subcritical request is answered by
    # the backend again, and the critical point is still the backend's
    try:
        Tm = fl.t_triple() + 0.6 * (fl.t_crit() - fl.t_triple())
        exp_p = fl.p_sat(Tm)
    except Exception:
        return
    st, got = _call(ads.saturation_pressure, Tm)
    ctx.case(["after-supercritical", case["ads"]])
    ctx.count("supercritical", "subcritical-request-afterwards")
    if st != "ok" or not close(float(got), exp_p, 1e-9):
        ctx.violation("Adsorbate.saturation_pressure/after-unanswerable-requests", "after requests above T_critical the adsorbate no longer answers a subcritical request with the backend value", ads=case["ads"], T=Tm,
                      got=got, expected=exp_p)
    st, got = _call(ads.t_critical)
    if st != "ok" or not close(float(got), fl.t_crit(), 1e-12):
        ctx.violation("Adsorbate.t_critical/after-unanswerable-requests", "after requests above T_critical the critical temperature is no longer the backend's", ads=case["ads"], got=got, expected=fl.t_crit())


_PROPS = {
    "molar_mass": ("molar_mass", (), 1.0),
    "p_triple": ("p_triple", (), 1e5),  # user value documented in bar, returned in Pa
    "t_triple": ("t_triple", (), 1.0),
    "p_critical": ("p_critical", (), 1e5),
    "t_critical": ("t_critical", (), 1.0),
    "saturation_pressure": ("saturation_pressure", (300.0, ), 1.0),
    "surface_tension": ("surface_tension", (300.0, ), 1.0),
    "liquid_density": ("liquid_density", (300.0, ), 1.0),
    "liquid_molar_density": ("liquid_molar_density", (300.0, ), 1.0),
    "gas_density": ("gas_density", (300.0, ), 1.0),
    "gas_molar_density": ("gas_molar_density", (300.0, ), 1.0),
    "enthalpy_liquefaction": ("enthalpy_liquefaction", (300.0, ), 1.0),
}


def _run_fallback(case, ctx):
    import pygaps
    r = gen.rng(case["seed"], "fb")
    variant = case["variant"]
    props = {}
    given = [p for p in _PROPS if r.random() < (0.5 if variant % 3 else 0.0 if variant == 0 else 1.0)]
    for p in given:
        props[p] = round(gen.log_uniform(r, 1e-3, 1e3), 6)
    if variant >= 3:
        props["backend_name"] = "NOT_A_COOLPROP_FLUID_%d" % variant
    ads = pygaps.Adsorbate("verif-synthetic-%d" % case["seed"], **props)
    for p, (method, args, scale) in _PROPS.items():
        for calc in (True, False):
            st, got = _call(getattr(ads, method), *args, calculate=calc)
            ctx.case(["fallback", variant, p, p in props, calc])
            ctx.count("fallback", "%s/%s" % ("user-prop" if p in props else "no-prop", "calculate" if calc else "lookup"))
            if p in props:
                exp = props[p] * scale
                if st != "ok" or not close(got, exp, 1e-12):
                    ctx.violation("Adsorbate.%s/fallback-user-value" % method, "user-supplied property not returned when the backend cannot provide a value", props=props, got=got, expected=exp, calculate=calc)
            else:
                if st == "ok":
                    ctx.violation("Adsorbate.%s/fallback-number" % method, "a number was returned although neither backend nor user property exists", props=props, got=got, calculate=calc)
                elif not _is_calc_error(got):
                    ctx.violation("Adsorbate.%s/fallback-wrong-error" % method, "missing property not reported as CalculationError", props=props, exc=got, calculate=calc)
    if "saturation_pressure" in props:
        for unit, pa in RU.PA.items():
            st, got = _call(ads.saturation_pressure, 300.0, unit)
            ctx.case(["fallback-unit", variant, unit])
            if st != "ok" or not close(got, props["saturation_pressure"] / pa, RU.rtol_for(unit)):
                ctx.violation("Adsorbate.saturation_pressure/fallback-unit", "unit argument not honoured for a user-supplied saturation pressure (documented in Pa)", unit=unit, got=got, user=props["saturation_pressure"])
    # an isotherm with an unknown adsorbate string gets a fresh, backend-less adsorbate (never a shipped one)
    from pygaps.core.baseisotherm import BaseIsotherm
    nm = "verif-unknown-gas-%d" % case["seed"]
    st, iso = _call(BaseIsotherm, material="verif-m", adsorbate=nm, temperature=300.0)
    ctx.case(["unknown-adsorbate-string"])
    if st != "ok" or iso.adsorbate.name != nm or any(a is iso.adsorbate for a in pygaps.ADSORBATE_LIST):
        ctx.violation("BaseIsotherm.adsorbate/unknown-string", "unknown adsorbate string not turned into a fresh adsorbate", got=repr(iso))


def finalize(ctx):
    reasons = []
    lk = ctx.tables.get("lookups", {})
    for src in ("json", "db", "memory"):
        if lk.get(src, 0) < 176 * 2:
            reasons.append("registry sweep from source %s incomplete (%d lookups)" % (src, lk.get(src, 0)))
    if ctx.tables.get("thermo_points", {}).get("evaluated", 0) < 81 * 4:
        reasons.append("too few thermodynamic points evaluated")
    if ctx.hooks.get("vs_propssi", 0) < 500:
        reasons.append("PropsSI comparison rarely reached")
    if sum(ctx.tables.get("fallback", {}).values()) < 100:
        reasons.append("fallback probes too few")
    for label, (hit, tot) in ctx.reach.items():
        if tot and not hit:
            reasons.append("anchored function %s never entered" % label)
    return reasons


def coverage_extra(ctx):
    return {
        "exhaustive": False,
        "exhaustive_parts": "registry part: all shipped adsorbates x all names/aliases x 6 case variants from the three sources "
        "(adsorbates.json, default.db via independent sqlite3, loaded registry) are swept completely in every run; "
        "temperatures and synthetic fallback adsorbates are sampled",
    }
