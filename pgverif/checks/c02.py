"""C02 — permanent isotherm conversions stay consistent over any conversion history.

Reference state machine over recorded histories: the monitor's only model state is the
original data and representation; after every call on the real PointIsotherm the full
observable state is compared with the direct reference conversion of the original data.
"""

import copy
import itertools

import numpy

from pgverif import gen
from pgverif.core import close
from pgverif.ref import units as RU

LEVEL = "exploration"
RULE = (
    "one evaluation = one convert*/convert_* call on a real PointIsotherm followed by the full state comparison; "
    "single-step part: every ordered pair of pressure / loading / material representations from a fresh isotherm; "
    "history part: seeded random sequences of 2-12 calls (full, partial, repeated, impossible targets, combined "
    "convert()) ending with a back-conversion; distinct = (call signature, labels before); a call is trivial when it "
    "names the current representation"
)
ASSUMPTIONS = [
    "reference conversion = pgverif.ref.units (SI + PropsSI); rounded pyGAPS constants admitted at relative 3e-4 per step",
    "a call that raises (any exception) counts as refused; whether an impossible target must be refused is judged only "
    "through the state it leaves; a fully designated, physically possible target must be accepted",
]
NSHARDS = {"quick": 16, "thorough": 16}
TIMEOUT = {"quick": 240, "thorough": 2400}

UNIT_KEYS = ["pressure_mode", "pressure_unit", "loading_basis", "loading_unit", "material_basis", "material_unit", "temperature_unit"]


def anchors():
    import pygaps
    P = pygaps.PointIsotherm
    from pygaps.core.baseisotherm import BaseIsotherm
    return [("PointIsotherm.convert", P.convert), ("PointIsotherm.convert_pressure", P.convert_pressure), ("PointIsotherm.convert_loading", P.convert_loading),
            ("PointIsotherm.convert_material", P.convert_material), ("BaseIsotherm.convert_temperature", BaseIsotherm.convert_temperature)]


def gen_cases(tier, seed):
    r = gen.rng(seed, "c02")
    ctxs = gen.FIXED_CONTEXTS
    # ---- exhaustive single steps
    nctx = 1 if tier == "quick" else 4
    for ci in range(nctx):
        ads, T = ctxs[(ci * 3 + 1) % len(ctxs)]
        for a in RU.PRESSURE_REPR:
            yield {"kind": "edges", "group": "pressure", "from": list(a), "ads": ads, "T": T, "seed": r.randrange(1 << 30)}
        mats = list(RU.MATERIAL_REPR)
        r.shuffle(mats)
        for a in RU.LOADING_REPR:
            for m in (mats[:2] if tier == "quick" else mats):
                yield {"kind": "edges", "group": "loading", "from": list(a), "material": list(m), "ads": ads, "T": T, "seed": r.randrange(1 << 30)}
        for a in RU.MATERIAL_REPR:
            for l in [("molar", "mmol"), ("fraction", None), ("percent", None), ("volume_gas", "cm3")]:
                yield {"kind": "edges", "group": "material", "from": list(a), "loading": list(l), "ads": ads, "T": T, "seed": r.randrange(1 << 30)}
    yield {"kind": "edges", "group": "temperature", "ads": "nitrogen", "T": 77.355, "seed": 1}
    # the same material edges for an adsorbate about which nothing is known (no backend, no stored constants): every conversion that
    # needs a constant must be refused and leave the isotherm exactly as it was
    for a in RU.MATERIAL_REPR:
        for l in [("fraction", None), ("percent", None), ("molar", "mmol")]:
            yield {"kind": "edges", "group": "material", "from": list(a), "loading": list(l), "ads": "verif-custom-gas", "T": 300.0, "seed": r.randrange(1 << 30)}
    # ---- histories
    n = 250 if tier == "quick" else 20000
    for i in range(n):
        yield {"kind": "history", "seed": r.randrange(1 << 30), "hostile": i % 4 == 0}


def run_case(case, ctx):
    ctx.count("case_kinds", case["kind"])
    globals()["_run_" + case["kind"]](case, ctx)


# ------------------------------------------------------------------ the reference model


class Model:
    def __init__(self, spec, mat_props, fl):
        self.units0 = dict(spec["units"])
        self.p0 = numpy.array(spec["pressure"], dtype=float)
        self.l0 = numpy.array(spec["loading"], dtype=float)
        self.T_K = RU.temperature(spec["temperature"], spec["units"]["temperature_unit"], "K")
        self.mat = mat_props or {}
        self.fl = fl
        self.steps = 0  # number of accepted data-changing conversions (tolerance accumulates)

    def expected(self, units):
        """Original data converted directly to the representation named by `units` (may raise)."""
        u0 = self.units0
        fp = RU.pressure_factor(u0["pressure_mode"], u0["pressure_unit"], units["pressure_mode"], units["pressure_unit"], self.fl, self.T_K)
        fl_ = RU.full_loading_factor((u0["loading_basis"], u0["loading_unit"]), (u0["material_basis"], u0["material_unit"]), (units["loading_basis"], units["loading_unit"]),
                                     (units["material_basis"], units["material_unit"]), self.fl, self.T_K, self.mat.get("density"), self.mat.get("molar_mass"))
        return self.p0 * fp, self.l0 * fl_

    def rtol(self, units):
        us = [self.units0[k] for k in UNIT_KEYS] + [units[k] for k in UNIT_KEYS]
        base = RU.rtol_for(*us)
        return base * max(1, min(self.steps, 6)) if base > 1e-6 else 1e-9


def _snapshot(iso):
    """Everything observable that a conversion could touch."""
    d = iso.data_raw
    return {
        "units": dict(iso.units),
        "cols": list(d.columns),
        "index": list(d.index),
        "dtypes": [str(x) for x in d.dtypes],
        "data": {c: d[c].to_numpy(copy=True) for c in d.columns},
        "temperature_K": iso.temperature,
        "_temperature": iso._temperature,
        "properties": copy.deepcopy(iso.properties),
        "material_id": id(iso.material),
        "material": (iso.material.name, copy.deepcopy(iso.material.properties)),
        "adsorbate_id": id(iso.adsorbate),
        "pressure_key": iso.pressure_key,
        "loading_key": iso.loading_key,
    }


def _same_array(a, b):
    if a.dtype.kind in "fiub" and b.dtype.kind in "fiub":
        return a.shape == b.shape and bool(numpy.all((a == b) | (numpy.isnan(a.astype(float)) & numpy.isnan(b.astype(float)))))
    return a.shape == b.shape and all(x == y for x, y in zip(a.tolist(), b.tolist()))


def _diff_snap(a, b, ignore_data_cols=()):
    out = []
    for k in ("units", "cols", "index", "temperature_K", "_temperature", "properties", "material_id", "material", "adsorbate_id", "pressure_key", "loading_key"):
        if a[k] != b[k]:
            out.append(k)
    if a["cols"] == b["cols"]:
        for c in a["cols"]:
            if c in ignore_data_cols:
                continue
            if not _same_array(a["data"][c], b["data"][c]):
                out.append("data:" + str(c))
    return out


def _labels_valid(iso):
    """(a): the label set would be accepted by the real constructor."""
    from pygaps.core.baseisotherm import BaseIsotherm
    try:
        BaseIsotherm(material="verif-label-probe", adsorbate=str(iso.adsorbate), temperature=1.0, **iso.units)
        return True, None
    except Exception as exc:
        return False, exc


def _check_state(ctx, iso, model, before, call, outcome, target=None):
    """Postcondition after one call. Returns False if the state is no longer interpretable."""
    sig = call["sig"]
    try:
        after = _snapshot(iso)
    except Exception as exc:
        # the isotherm cannot even be looked at any more (a label the library itself rejects, a property that raises)
        ctx.violation("%s/isotherm-unusable-after-%s-call" % (sig, "refused" if outcome[0] != "ok" else "successful"), "after the call the isotherm's own accessors raise", call=call, exc=exc,
                      units=dict(iso.units))
        return False
    # (e) things no conversion may touch
    untouched = _diff_snap(before, after, ignore_data_cols=(iso.pressure_key, iso.loading_key))
    untouched = [k for k in untouched if k not in ("units", "_temperature")]
    if "temperature_K" in untouched and close(before["temperature_K"], after["temperature_K"], 1e-12):
        untouched.remove("temperature_K")
    if untouched:
        ctx.violation("%s/touches/%s" % (sig, ",".join(sorted(set(k.split(":")[0] for k in untouched)))), "a conversion altered something other than pressure/loading/labels", call=call, changed=untouched)
    if outcome[0] == "exc" and call["fn"] != "convert":
        # (d) refused single-quantity call: nothing changes
        d = _diff_snap(before, after)
        if d:
            ctx.violation("%s/refused-but-changed" % sig, "a refused conversion changed the isotherm", call=call, changed=d, exc=outcome[1], units_before=before["units"], units_after=after["units"])
    # (a) labels valid
    ok, exc = _labels_valid(iso)
    if not ok:
        ctx.violation("%s/invalid-labels" % sig, "labels after the call would be rejected by the constructor", call=call, units_before=before["units"], units_after=after["units"], outcome=outcome[0], exc=exc)
        return False
    # (c) labels equal the complete target named by the call
    if outcome[0] == "ok" and target:
        wrong = {k: (after["units"][k], v) for k, v in target.items() if after["units"][k] != v}
        if wrong:
            ctx.violation("%s/labels-not-target" % sig, "labels after a successful call differ from the target it named", call=call, wrong=wrong, units_before=before["units"])
    # parts not named keep their labels
    if outcome[0] == "ok":
        keep = call.get("keeps", [])
        moved = [k for k in keep if after["units"][k] != before["units"][k]]
        if moved:
            ctx.violation("%s/unnamed-labels-changed" % sig, "labels of a quantity the call did not name changed", call=call, moved=moved, units_before=before["units"], units_after=after["units"])
    # (b) data == direct reference conversion of the original
    try:
        ep, el = model.expected(after["units"])
    except Exception as exc:
        ctx.count("reference_unavailable", type(exc).__name__)
        return True
    rt = model.rtol(after["units"])
    gp = after["data"][iso.pressure_key].astype(float)
    gl = after["data"][iso.loading_key].astype(float)
    bad_p = not all(close(g, e, rt) for g, e in zip(gp, ep))
    bad_l = not all(close(g, e, rt) for g, e in zip(gl, el))
    if bad_p or bad_l:
        ctx.violation("%s/data-vs-labels/%s" % (sig, "+".join(x for x, b in (("pressure", bad_p), ("loading", bad_l)) if b)),
                      "stored data differ from the original data converted directly to the representation the labels name",
                      call=call,
                      outcome=outcome[0],
                      exc=outcome[1] if outcome[0] == "exc" else None,
                      units0=model.units0,
                      units_before=before["units"],
                      units_after=after["units"],
                      got=[gp[:3], gl[:3]],
                      expected=[ep[:3], el[:3]])
        return False
    # temperature
    et = RU.temperature(model.T_K, "K", {"K": "K", "°C": "°C"}.get(after["units"]["temperature_unit"], "K"))
    if not close(after["temperature_K"], model.T_K, 1e-12) or not close(after["_temperature"], et, 1e-12, 1e-10):
        ctx.violation("%s/temperature" % sig, "temperature (kelvin) changed or stored value does not match its unit label", call=call, T_K=[model.T_K, after["temperature_K"]], stored=[et, after["_temperature"]])
    return True


def _do(iso, call):
    fn = getattr(iso, call["fn"])
    kw = dict(call["kw"])
    if call.get("verbose") and call["fn"] != "convert_temperature":
        kw["verbose"] = True  # (what the call does must not depend on whether it reports it)
    import logging
    logging.disable(logging.CRITICAL)
    try:
        fn(**kw)
        return ("ok", None)
    except Exception as exc:
        return ("exc", exc)
    finally:
        logging.disable(logging.NOTSET)


_BUILD = [0]


def _build(spec):
    _BUILD[0] += 1
    if spec["units"]["pressure_mode"].startswith("relative") and spec["units"].get("pressure_unit") is None and _BUILD[0] % 2:
        # a relative-pressure record for which no pressure unit is mentioned at all (the constructor's defaults apply)
        s2 = dict(spec, units={k: v for k, v in spec["units"].items() if k != "pressure_unit"})
        return gen.build_point(s2, "df")
    # (every third record comes from a table with the user's own column names, in another column order)
    return gen.build_point(spec, "df_cols" if _BUILD[0] % 3 == 0 else "df")


def _spec_for(r, units, ads, T, mat_props, extras=True, n=None):
    spec = gen.point_spec(r, n=n or r.randint(2, 12), units=units, ads=ads, T=T, extras=extras, meta={"user": "x", "n": 3}, material_props=mat_props)
    if r.random() < 0.2:
        # loadings recorded as whole numbers (an integer-typed column): same rank order as before
        b = spec["branch"]
        na = b.count(0)
        spec["loading"] = [1 + 2 * i for i in range(na)] + [2 * na + 3 - 2 * j for j in range(len(b) - na)]
        spec["integer_loading"] = True
    if r.random() < 0.3 and len(spec["branch"]) >= 3:
        # marks assigned by the user, not what a guess from the pressure maximum would give (a scanning loop, all-desorption
        # on rising pressures): a conversion has no business with them
        spec["branch"] = r.choice([[1] * len(spec["branch"]), [r.randint(0, 1) for _ in spec["branch"]], [1, 0] + [r.randint(0, 1) for _ in spec["branch"][2:]]])
    return spec


# ------------------------------------------------------------------ exhaustive single steps


def _possible(model, target_units):
    try:
        model.expected(target_units)
        return True
    except Exception:
        return False


def _run_edges(case, ctx):
    r = gen.rng(case["seed"], "e")
    ads, T = case["ads"], case["T"]
    fl = None if ads == "verif-custom-gas" else RU.fluid(gen.backend_of(ads))
    mp = gen.material_props(r)
    group = case["group"]
    if group == "temperature":
        for a, b in itertools.product(["K", "°C"], ["K", "°C", "C", "k", None, "F"]):
            units = dict(gen.DEFAULT_UNITS, temperature_unit=a)
            spec = _spec_for(r, units, ads, T, mp)
            iso = _build(spec)
            model = Model(spec, mp, fl)
            before = _snapshot(iso)
            call = {"fn": "convert_temperature", "kw": {"unit_to": b}, "sig": "convert_temperature", "keeps": UNIT_KEYS[:6]}
            out = _do(iso, call)
            ctx.case(["edge", "temperature", a, b], nontrivial=a != b)
            ctx.count("edges", "temperature")
            target = {"temperature_unit": b} if b in ("K", "°C") else None
            _check_state(ctx, iso, model, before, call, out, target)
            if out[0] == "exc" and b in ("K", "°C"):
                ctx.violation("convert_temperature/refuses-valid-target", "a valid temperature unit was refused", a=a, b=b, exc=out[1])
        return
    if group == "pressure":
        reps, a = RU.PRESSURE_REPR, tuple(case["from"])
        base_units = dict(gen.DEFAULT_UNITS, pressure_mode=a[0], pressure_unit=a[1])
    elif group == "loading":
        reps, a = RU.LOADING_REPR, tuple(case["from"])
        m = case["material"]
        base_units = dict(gen.DEFAULT_UNITS, loading_basis=a[0], loading_unit=a[1], material_basis=m[0], material_unit=m[1])
    else:
        reps, a = RU.MATERIAL_REPR, tuple(case["from"])
        l = case["loading"]
        base_units = dict(gen.DEFAULT_UNITS, material_basis=a[0], material_unit=a[1], loading_basis=l[0], loading_unit=l[1])
    spec = _spec_for(r, base_units, ads, T, mp, n=4)
    for b in reps:
        iso = _build(spec)
        model = Model(spec, mp, fl)
        before = _snapshot(iso)
        if group == "pressure":
            call = {"fn": "convert_pressure", "kw": {"mode_to": b[0], "unit_to": b[1]}, "sig": "convert_pressure"}
            target = {"pressure_mode": b[0], "pressure_unit": b[1]}
            call["keeps"] = [k for k in UNIT_KEYS if not k.startswith("pressure")]
        elif group == "loading":
            call = {"fn": "convert_loading", "kw": {"basis_to": b[0], "unit_to": b[1]}, "sig": "convert_loading"}
            target = {"loading_basis": b[0], "loading_unit": b[1]}
            call["keeps"] = [k for k in UNIT_KEYS if not k.startswith("loading")]
        else:
            call = {"fn": "convert_material", "kw": {"basis_to": b[0], "unit_to": b[1]}, "sig": "convert_material"}
            target = {"material_basis": b[0], "material_unit": b[1]}
            call["keeps"] = [k for k in UNIT_KEYS if not k.startswith("material")]
        out = _do(iso, call)
        model.steps = 1
        ctx.case(["edge", group, a, b, base_units], nontrivial=a != b)
        ctx.count("edges", group)
        alive = _check_state(ctx, iso, model, before, call, out, target)
        if out[0] == "exc":
            tu = dict(base_units)
            tu.update(target)
            if _possible(model, tu):
                ctx.violation("%s/refuses-valid-target" % call["sig"], "a fully designated, possible target was refused", call=call, units_before=base_units, exc=out[1])
            continue
        if not alive:
            continue
        # (f) and back
        before2 = _snapshot(iso)
        if group == "pressure":
            back = {"fn": "convert_pressure", "kw": {"mode_to": a[0], "unit_to": a[1]}, "sig": "convert_pressure"}
        elif group == "loading":
            back = {"fn": "convert_loading", "kw": {"basis_to": a[0], "unit_to": a[1]}, "sig": "convert_loading"}
        else:
            back = {"fn": "convert_material", "kw": {"basis_to": a[0], "unit_to": a[1]}, "sig": "convert_material"}
        back["keeps"] = call["keeps"]
        out2 = _do(iso, back)
        model.steps = 2
        ctx.case(["edge-back", group, b, a, base_units], nontrivial=a != b)
        _check_state(ctx, iso, model, before2, back, out2, {k: base_units[k] for k in target})
        if out2[0] == "ok":
            gp = iso.data_raw[iso.pressure_key].to_numpy(dtype=float)
            gl = iso.data_raw[iso.loading_key].to_numpy(dtype=float)
            if not (all(close(x, y, 1e-9) for x, y in zip(gp, model.p0)) and all(close(x, y, 1e-9) for x, y in zip(gl, model.l0))):
                ctx.violation("%s/there-and-back" % call["sig"], "converting back does not restore the original numbers", a=a, b=b, got=[gp[:3], gl[:3]], orig=[model.p0[:3], model.l0[:3]])


# ------------------------------------------------------------------ random histories


def _random_call(r, iso, hostile):
    call = _random_call0(r, iso, hostile)
    if r.random() < 0.25:
        call["verbose"] = True
    return call


def _random_call0(r, iso, hostile):
    """One call description (JSON-able) given the current labels."""
    u = iso.units
    which = r.choice(["pressure", "loading", "material", "temperature", "convert", "pressure", "loading", "material"])
    bad_unit = lambda: r.choice(["xx", "BAR", "mMol", "", "kelvin"])
    style = r.choice(["full", "full", "unit-only", "basis-only", "repeat"] + (["impossible"] * 2 if hostile else []))
    if which == "pressure":
        m, un = r.choice(RU.PRESSURE_REPR)
        if style == "unit-only":
            kw = {"unit_to": un if un else r.choice(list(RU.PA))}
        elif style == "basis-only":
            kw = {"mode_to": m}
        elif style == "repeat":
            kw = {"mode_to": u["pressure_mode"], "unit_to": u["pressure_unit"]}
        elif style == "impossible":
            kw = r.choice([{"mode_to": "absolute", "unit_to": bad_unit()}, {"mode_to": "Relative"}, {"unit_to": "mmol"}, {"mode_to": "absolute"}])
        else:
            kw = {"mode_to": m, "unit_to": un}
        return {"fn": "convert_pressure", "kw": kw, "sig": "convert_pressure", "style": style}
    if which == "loading":
        b, un = r.choice(RU.LOADING_REPR)
        if style == "unit-only":
            kw = {"unit_to": r.choice([x[1] for x in RU.LOADING_REPR if x[1]])}
        elif style == "basis-only":
            kw = {"basis_to": b}
        elif style == "repeat":
            kw = {"basis_to": u["loading_basis"], "unit_to": u["loading_unit"]}
        elif style == "impossible":
            kw = r.choice([{"basis_to": "molar", "unit_to": bad_unit()}, {"basis_to": "volume"}, {"basis_to": "mass", "unit_to": "mmol"}, {"basis_to": "mass"}])
        else:
            kw = {"basis_to": b, "unit_to": un}
        return {"fn": "convert_loading", "kw": kw, "sig": "convert_loading", "style": style}
    if which == "material":
        b, un = r.choice(RU.MATERIAL_REPR)
        if style == "unit-only":
            kw = {"unit_to": r.choice([x[1] for x in RU.MATERIAL_REPR])}
        elif style == "basis-only":
            kw = {"basis_to": b}
        elif style == "repeat":
            kw = {"basis_to": u["material_basis"], "unit_to": u["material_unit"]}
        elif style == "impossible":
            kw = r.choice([{"basis_to": "mass", "unit_to": bad_unit()}, {"basis_to": "volume_liquid", "unit_to": "cm3"}, {"basis_to": "molar", "unit_to": "g"}, {"basis_to": "volume"}])
        else:
            kw = {"basis_to": b, "unit_to": un}
        return {"fn": "convert_material", "kw": kw, "sig": "convert_material", "style": style}
    if which == "temperature":
        kw = {"unit_to": r.choice(["K", "°C", "K", "°C"] + (["F", None, "k"] if hostile else []))}
        return {"fn": "convert_temperature", "kw": kw, "sig": "convert_temperature", "style": style}
    kw = {}
    groups = r.sample(["pressure", "loading", "material"], r.randint(1, 3))
    if "pressure" in groups:
        m, un = r.choice(RU.PRESSURE_REPR)
        kw["pressure_mode"] = m
        if un:
            kw["pressure_unit"] = un
    if "loading" in groups:
        b, un = r.choice(RU.LOADING_REPR)
        kw["loading_basis"] = b
        if un:
            kw["loading_unit"] = un
    if "material" in groups:
        b, un = r.choice(RU.MATERIAL_REPR)
        kw["material_basis"] = b
        kw["material_unit"] = un
    if hostile and r.random() < 0.4:
        k = r.choice(list(kw))
        kw[k] = "xx" if k.endswith("unit") else kw[k]
    return {"fn": "convert", "kw": kw, "sig": "convert", "style": "combined"}


def _target_of(call, u):
    """Complete target named by a single-quantity call (None if not complete / not determinable)."""
    kw, fn = call["kw"], call["fn"]
    if fn == "convert_pressure":
        m = kw.get("mode_to") or u["pressure_mode"]
        if m not in ("absolute", "relative", "relative%"):
            return None
        if m == "absolute":
            un = kw.get("unit_to") or (u["pressure_unit"] if u["pressure_mode"] == "absolute" else None)
            if un not in RU.PA:
                return None
            return {"pressure_mode": m, "pressure_unit": un}
        return {"pressure_mode": m, "pressure_unit": None}
    if fn == "convert_loading":
        b = kw.get("basis_to") or u["loading_basis"]
        if b in ("fraction", "percent"):
            return {"loading_basis": b, "loading_unit": None}
        if b not in RU.LOADING_TABLE:
            return None
        un = kw.get("unit_to") or (u["loading_unit"] if u["loading_basis"] == b else None)
        if un not in RU.LOADING_TABLE[b]:
            return None
        return {"loading_basis": b, "loading_unit": un}
    if fn == "convert_material":
        b = kw.get("basis_to") or u["material_basis"]
        if b not in RU.MATERIAL_TABLE:
            return None
        un = kw.get("unit_to") or (u["material_unit"] if u["material_basis"] == b else None)
        if un not in RU.MATERIAL_TABLE[b]:
            return None
        return {"material_basis": b, "material_unit": un}
    if fn == "convert_temperature":
        un = kw.get("unit_to")
        return {"temperature_unit": un} if un in ("K", "°C") else None
    return None


def _keeps(call):
    fn = call["fn"]
    if fn == "convert_pressure":
        return [k for k in UNIT_KEYS if not k.startswith("pressure")]
    if fn == "convert_loading":
        return [k for k in UNIT_KEYS if not k.startswith("loading")]
    if fn == "convert_material":
        return [k for k in UNIT_KEYS if not k.startswith("material")]
    if fn == "convert_temperature":
        return UNIT_KEYS[:6]
    kw = call["kw"]
    keep = ["temperature_unit"]
    if not (kw.get("pressure_mode") or kw.get("pressure_unit")):
        keep += ["pressure_mode", "pressure_unit"]
    if not (kw.get("loading_basis") or kw.get("loading_unit")):
        keep += ["loading_basis", "loading_unit"]
    if not (kw.get("material_basis") or kw.get("material_unit")):
        keep += ["material_basis", "material_unit"]
    return keep


def _run_history(case, ctx):
    import pygaps
    r = gen.rng(case["seed"], "h")
    hostile = case.get("hostile")
    flavour = r.random()
    # shipped fluids, two whose stored molar mass differs from the backend's, and a user-defined vapour known only by its properties
    ads, T = r.choice(list(gen.FIXED_CONTEXTS) + list(gen.STORED_VS_BACKEND_CONTEXTS) * 2 + [(gen.user_vapour()[0], 300.0)] * 2)
    mp = gen.material_props(r)
    units = gen.random_units(r)
    fl = gen.reference_fluid(ads)
    if hostile and flavour < 0.25:
        # material lacking density / molar mass: conversions needing them must be refused cleanly
        mp = {"density": mp["density"]} if r.random() < 0.5 else {}
        units["material_basis"], units["material_unit"] = "mass", r.choice(list(RU.GRAM))
        if units["loading_basis"] in ("fraction", "percent"):
            pass
    if hostile and 0.25 <= flavour < 0.45:
        # adsorbate without thermodynamic backend: every conversion needing p0 / densities / molar mass must be refused
        ads, fl = "verif-custom-gas", None
    elif hostile and 0.45 <= flavour < 0.6:
        # supercritical temperature: no saturation pressure, no liquid density
        ads, T = "nitrogen", 150.0
        fl = RU.fluid(gen.backend_of(ads))
    if hostile and 0.25 <= flavour < 0.6:
        units["pressure_mode"], units["pressure_unit"] = "absolute", r.choice(list(RU.PA))
        if units["loading_basis"] in ("volume_liquid", "volume_gas") or (fl is None and units["loading_basis"] == "mass"):
            units["loading_basis"], units["loading_unit"] = "molar", "mmol"
        if units["loading_basis"] in ("fraction", "percent") and units["material_basis"] != "molar":
            units["material_basis"], units["material_unit"] = "molar", "mol"
    spec = _spec_for(r, units, ads, T, mp or None)
    try:
        iso = _build(spec)
    except Exception as exc:
        ctx.error("c02: construction failed", exc)
        return
    model = Model(spec, mp, fl)
    calls = []
    states = {tuple(sorted(iso.units.items(), key=lambda kv: kv[0]))}
    nsteps = r.randint(2, 12)
    alive = True
    for step in range(nsteps + 1):
        final = step == nsteps
        if final:
            u0 = spec["units"]
            call_list = [
                {"fn": "convert_temperature", "kw": {"unit_to": u0["temperature_unit"]}, "sig": "convert_temperature", "style": "final-back"},
                {"fn": "convert_pressure", "kw": {"mode_to": u0["pressure_mode"], "unit_to": u0["pressure_unit"]}, "sig": "convert_pressure", "style": "final-back"},
                # material first when the loading is fractional (the fraction is defined relative to the material)
                {"fn": "convert_loading", "kw": {"basis_to": "molar", "unit_to": "mol"}, "sig": "convert_loading", "style": "final-back"},
                {"fn": "convert_material", "kw": {"basis_to": u0["material_basis"], "unit_to": u0["material_unit"]}, "sig": "convert_material", "style": "final-back"},
                {"fn": "convert_loading", "kw": {"basis_to": u0["loading_basis"], "unit_to": u0["loading_unit"]}, "sig": "convert_loading", "style": "final-back"},
            ]
        else:
            call_list = [_random_call(r, iso, hostile)]
        for call in call_list:
            call["keeps"] = _keeps(call)
            before = _snapshot(iso)
            target = _target_of(call, before["units"])
            shadow_expect = None
            if call["fn"] == "convert":
                shadow_expect = _shadow_convert(iso, call["kw"])
            out = _do(iso, call)
            calls.append({"fn": call["fn"], "kw": call["kw"], "outcome": out[0]})
            trivial = target is not None and all(before["units"][k] == v for k, v in target.items())
            ctx.case([call["fn"], sorted(call["kw"].items(), key=lambda kv: kv[0]), before["units"]], nontrivial=not trivial)
            ctx.count("calls", "%s/%s/%s" % (call["fn"], call.get("style"), out[0]))
            if out[0] == "ok" and not trivial:
                model.steps += 1
            call_rec = dict(call, history=calls[-6:], spec_units=spec["units"])
            alive = _check_state(ctx, iso, model, before, call_rec, out, target if call["fn"] != "convert" else None)
            if call["fn"] == "convert" and shadow_expect is not None:
                _check_shadow(ctx, iso, call_rec, out, shadow_expect)
            if out[0] == "exc" and target is not None and call["fn"] != "convert":
                tu = dict(before["units"])
                tu.update(target)
                if _possible(model, tu) and ("density" in model.mat and "molar_mass" in model.mat):
                    ctx.violation("%s/refuses-valid-target" % call["sig"], "a completely designated, possible target was refused", call=call_rec, units_before=before["units"], exc=out[1])
            states.add(tuple(sorted(iso.units.items(), key=lambda kv: kv[0])))
            if not alive:
                break
            # interpolated reads in the current representation must follow the conversion (caches invisible):
            # this also fills the interpolator caches before the next conversion call
            _check_interpolation(ctx, iso, call_rec)
        if not alive:
            break
    ctx.extra["distinct_label_states"] = ctx.extra.get("distinct_label_states", 0) + len(states)
    if alive and iso.units == spec["units"]:
        gp = iso.data_raw[iso.pressure_key].to_numpy(dtype=float)
        gl = iso.data_raw[iso.loading_key].to_numpy(dtype=float)
        ctx.case(["final-restore", spec["units"]])
        ctx.count("histories", "returned-to-start")
        rt = max(model.rtol(iso.units), 1e-9)
        if not (all(close(x, y, rt) for x, y in zip(gp, model.p0)) and all(close(x, y, rt) for x, y in zip(gl, model.l0))):
            ctx.violation("history/back-conversion-does-not-restore", "after converting back to the starting representation the numbers differ from the original", history=calls, units=spec["units"], got=[gp[:3], gl[:3]], orig=[model.p0[:3], model.l0[:3]])
    else:
        ctx.count("histories", "did-not-return-to-start")
    if r.random() < 0.02:
        ctx.sample({"start_units": spec["units"], "calls": calls})


def _check_interpolation(ctx, iso, call):
    d = iso.data_raw
    ads = d.loc[d["branch"] == 0]
    if len(ads) < 2:
        return
    pa_, la_ = ads[iso.pressure_key].to_numpy(dtype=float), ads[iso.loading_key].to_numpy(dtype=float)
    if not (numpy.all(numpy.diff(pa_) > 0) and numpy.all(numpy.diff(la_) > 0)):
        # (user-assigned marks may pick rows that do not form a monotone series: interpolating through them at a measured point is
        # not defined, whatever the history)
        return
    k = len(ads) // 2
    pk = float(ads[iso.pressure_key].iloc[k])
    lk = float(ads[iso.loading_key].iloc[k])
    ctx.hook("interpolation_after_conversion")
    try:
        got_l = float(iso.loading_at(pk))
        got_p = float(iso.pressure_at(lk))
    except Exception as exc:
        ctx.violation("history/interpolation-raises-after/%s" % call["fn"], "interpolating at a measured point raised after a conversion history", call=call, exc=exc, units=dict(iso.units))
        return
    if not close(got_l, lk, 1e-9) or not close(got_p, pk, 1e-9):
        ctx.violation("history/interpolation-stale-after/%s" % call["fn"], "interpolated value at a measured point does not coincide with the stored data after a conversion (stale cache)", call=call, got=[got_l, got_p],
                      expected=[lk, pk], units=dict(iso.units))


def _shadow_convert(iso, kw):
    """State a combined convert() must leave: its steps replayed one by one on a copy, in the
    documented order pressure -> material -> loading, up to the first refusal."""
    try:
        sh = gen.copy_point(iso)
    except Exception:
        return None
    steps = []
    if kw.get("pressure_mode") or kw.get("pressure_unit"):
        steps.append(("convert_pressure", {"mode_to": kw.get("pressure_mode"), "unit_to": kw.get("pressure_unit")}))
    if kw.get("material_basis") or kw.get("material_unit"):
        steps.append(("convert_material", {"basis_to": kw.get("material_basis"), "unit_to": kw.get("material_unit")}))
    if kw.get("loading_basis") or kw.get("loading_unit"):
        steps.append(("convert_loading", {"basis_to": kw.get("loading_basis"), "unit_to": kw.get("loading_unit")}))
    refused = False
    for fn, k in steps:
        try:
            getattr(sh, fn)(**k)
        except Exception:
            refused = True
            break
    return {"units": dict(sh.units), "p": sh.data_raw[sh.pressure_key].to_numpy(dtype=float), "l": sh.data_raw[sh.loading_key].to_numpy(dtype=float), "refused": refused}


def _check_shadow(ctx, iso, call, out, exp):
    if (out[0] == "exc") != exp["refused"]:
        ctx.violation("convert/outcome-vs-steps", "combined convert() was %s although its individual steps %s" % ("refused" if out[0] == "exc" else "accepted", "are refused" if exp["refused"] else "succeed"), call=call, exc=out[1])
        return
    gp = iso.data_raw[iso.pressure_key].to_numpy(dtype=float)
    gl = iso.data_raw[iso.loading_key].to_numpy(dtype=float)
    if dict(iso.units) != exp["units"] or not all(close(a, b, 1e-12) for a, b in zip(gp, exp["p"])) or not all(close(a, b, 1e-12) for a, b in zip(gl, exp["l"])):
        ctx.violation("convert/differs-from-steps-in-order", "combined convert() leaves a state different from its steps applied in the order pressure -> material -> loading up to the first refusal", call=call, outcome=out[0],
                      units=[dict(iso.units), exp["units"]])


def finalize(ctx):
    reasons = []
    e = ctx.tables.get("edges", {})
    if e.get("pressure", 0) < 100:
        reasons.append("fewer than 100 pressure edges")
    if e.get("loading", 0) < 729:
        reasons.append("fewer than 729 loading edges")
    if e.get("material", 0) < 361:
        reasons.append("fewer than 361 material edges")
    calls = ctx.tables.get("calls", {})
    if sum(calls.values()) < 500:
        reasons.append("fewer than 500 history calls")
    if not any(k.startswith("convert/") for k in calls):
        reasons.append("combined convert() never exercised")
    if ctx.tables.get("histories", {}).get("returned-to-start", 0) < 20:
        reasons.append("fewer than 20 histories returned to the start representation")
    for label, (hit, tot) in ctx.reach.items():
        if tot and not hit:
            reasons.append("anchored function %s never entered" % label)
    return reasons


def coverage_extra(ctx):
    return {"states": int(ctx.extra.get("distinct_label_states", 0)), "transitions": int(sum(ctx.tables.get("calls", {}).values()) + sum(ctx.tables.get("edges", {}).values()))}
