"""C05 — isotherm identity is determined by content, and only by content.

Paired-construction monitor: the same content through different routes must give the same
iso_id / ==; minimally different content must give a different one.
"""

import copy
import json
import os
import tempfile
import subprocess
import sys

import numpy

from pgverif import gen
from pgverif import models as GM

LEVEL = "exploration"
RULE = (
    "one evaluation = one pair of really constructed isotherms whose ids are compared; 'same' pairs: identical "
    "content through two construction routes (lists/ndarray/tuples/DataFrame with default, offset, permuted, "
    "string index, other column names, branch as marks/bools/column, int vs float literals, child process with "
    "another PYTHONHASHSEED, JSON parse, after read-only calls); 'diff' pairs: one minimal content change. "
    "distinct = (spec digest, pair label); a pair is trivial when both routes are literally the same call"
)
ASSUMPTIONS = [
    "int-vs-float spelling is judged for data values and temperature only; for metadata values and model "
    "parameters the type is treated as content (C06 requires types to survive) and is only tabulated",
    "data differences are placed well above (1e-6) or well below (1e-10 on 4-decimal data) the 8-decimal threshold",
]
NSHARDS = {"quick": 8, "thorough": 16}
TIMEOUT = {"quick": 200, "thorough": 1200}


def anchors():
    from pygaps.core.baseisotherm import BaseIsotherm
    from pygaps.modelling.base_model import IsothermBaseModel
    from pygaps.utilities import hashgen
    return [("isotherm_to_hash", hashgen.isotherm_to_hash), ("BaseIsotherm.to_dict", BaseIsotherm.to_dict), ("BaseIsotherm.__eq__", BaseIsotherm.__eq__),
            ("IsothermBaseModel.to_dict", IsothermBaseModel.to_dict)]


def gen_cases(tier, seed):
    r = gen.rng(seed, "c05")
    n = 40 if tier == "quick" else 1500
    for i in range(n):
        units = gen.random_units(r) if r.random() < 0.6 else None
        rich = r.random() < 0.7
        yield {"kind": "point", "seed": r.randrange(1 << 30), "units": units, "rich": rich, "integral": i % 5 == 0}
    for i in range(20 if tier == "quick" else 600):
        yield {"kind": "model", "seed": r.randrange(1 << 30), "model": GM.MODEL_NAMES[i % len(GM.MODEL_NAMES)]}
    for i in range(10 if tier == "quick" else 300):
        yield {"kind": "base", "seed": r.randrange(1 << 30)}
    for i in range(2 if tier == "quick" else 48):
        yield {"kind": "process", "seed": r.randrange(1 << 30), "hashseed": [1, 4242, 99, 7][i % 4], "n": 12}


def run_case(case, ctx):
    ctx.count("case_kinds", case["kind"])
    globals()["_run_" + case["kind"]](case, ctx)


def _digest(spec):
    from pgverif.core import _h
    return _h(spec)


def _same(ctx, label, a, b, spec, trivial=False):
    """ids of equal content must be equal (and == / membership must agree)."""
    ctx.case([_digest(spec), "same", label], nontrivial=not trivial)
    ctx.count("same_pairs", label)
    try:
        ia, ib = a.iso_id, b.iso_id
        eq = (a == b) and (a in [b])
    except Exception as exc:
        ctx.violation("identity/raises/%s" % label, "computing the identifier raised", exc=exc, spec=spec)
        return
    if ia != ib or not eq:
        ctx.violation("identity/same-content-different-id/%s" % label, "equal content built by two routes has different identifiers", ids=[ia, ib], eq=eq, spec=spec)


def _diff(ctx, label, a, b, spec):
    ctx.case([_digest(spec), "diff", label])
    ctx.count("diff_pairs", label)
    try:
        ia, ib = a.iso_id, b.iso_id
        eq = (a == b) or (a in [b])
    except Exception as exc:
        ctx.violation("identity/raises/%s" % label, "computing the identifier raised", exc=exc, spec=spec)
        return
    if ia == ib or eq:
        ctx.violation("identity/different-content-same-id/%s" % label, "a content change does not change the identifier", ids=[ia, ib], spec=spec)


def _make_spec(case):
    r = gen.rng(case["seed"], "spec")
    meta = gen.json_metadata(r, rich=case.get("rich", True))
    spec = gen.point_spec(r, units=case.get("units"), extras=False, meta=meta, decimals=4, material_props=gen.material_props(r) if r.random() < 0.4 else None)
    if case.get("integral"):
        # data whose values are integers, so that int and float literals describe the same content
        n = len(spec["pressure"])
        na = spec["branch"].count(0)
        spec["pressure"] = [float(i + 1) for i in range(na)] + [float(na - 1 - i) for i in range(n - na)]
        spec["loading"] = [float(10 * (i + 1)) for i in range(na)] + [float(10 * (na - i) + 5) for i in range(n - na)]
        spec["temperature"] = float(round(spec["temperature"]))
        if spec["units"]["pressure_mode"] != "absolute":
            spec["units"]["pressure_mode"], spec["units"]["pressure_unit"] = "absolute", "kPa"
    return spec, r


def _run_point(case, ctx):
    import numpy
    import pandas
    import pygaps
    spec, r = _make_spec(case)
    try:
        ref = gen.build_point(spec, "df")
    except Exception as exc:
        ctx.error("c05: reference construction failed", exc)
        return
    ctx.sample({"spec": spec, "iso_id": ref.iso_id}) if r.random() < 0.05 else None
    # ---------------- equal content, different routes
    for route in gen.POINT_ROUTES:
        try:
            other = gen.build_point(spec, route)
        except Exception as exc:
            ctx.violation("construct/raises/%s" % route, "a construction route raised", exc=exc, spec=spec)
            continue
        _same(ctx, "route:" + route, ref, other, spec, trivial=route == "df")
    # keyword order
    kw = gen._kw(spec)
    rev = dict(reversed(list(kw.items())))
    _same(ctx, "keyword-order", ref, pygaps.PointIsotherm(pressure=spec["pressure"], loading=spec["loading"], branch=[bool(x) for x in spec["branch"]], **rev), spec)
    # numpy scalar temperature / str temperature
    kw2 = gen._kw(spec)
    kw2["temperature"] = repr(spec["temperature"])
    _same(ctx, "temperature-as-str", ref, pygaps.PointIsotherm(pressure=spec["pressure"], loading=spec["loading"], branch=[bool(x) for x in spec["branch"]], **kw2), spec)
    if case.get("integral"):
        ip = [int(x) for x in spec["pressure"]]
        il = [int(x) for x in spec["loading"]]
        br = [bool(x) for x in spec["branch"]]
        _same(ctx, "int-literals:lists", ref, pygaps.PointIsotherm(pressure=ip, loading=il, branch=br, **gen._kw(spec)), spec)
        _same(ctx, "int-literals:ndarray", ref, pygaps.PointIsotherm(pressure=numpy.array(ip), loading=numpy.array(il), branch=br, **gen._kw(spec)), spec)
        _same(ctx, "int-literals:df", ref, pygaps.PointIsotherm(isotherm_data=pandas.DataFrame({"pressure": ip, "loading": il}), pressure_key="pressure", loading_key="loading", branch=br, **gen._kw(spec)),
              spec)
        kwi = gen._kw(spec)
        kwi["temperature"] = int(spec["temperature"])
        _same(ctx, "int-literals:temperature", ref, pygaps.PointIsotherm(pressure=spec["pressure"], loading=spec["loading"], branch=br, **kwi), spec)
        _same(ctx, "float32-data", ref, pygaps.PointIsotherm(pressure=numpy.array(ip, dtype=numpy.float32), loading=numpy.array(il, dtype=numpy.float32), branch=br, **gen._kw(spec)), spec)
    # branch guess == explicit marks when the marks are what the guess rule gives
    guessable = spec["branch"] == sorted(spec["branch"]) and (1 not in spec["branch"] or spec["pressure"].index(max(spec["pressure"])) == spec["branch"].index(1) - 1)
    if guessable and spec["pressure"].index(max(spec["pressure"])) != 0:
        _same(ctx, "branch-guess-vs-explicit", ref, gen.build_point(spec, "lists", branch="guess"), spec)
        for route in ("df_dup", "df_perm", "df_str"):
            try:
                _same(ctx, "branch-guess-vs-explicit:" + route, ref, gen.build_point(spec, route, branch="guess"), spec)
            except Exception as exc:
                ctx.violation("construct/raises/guess:%s" % route, "construction with guessed branches raised for a table with unusual row labels", exc=exc)
    # every route's object exports (row labels are not content)
    for route in ("df_dup", "df_str"):
        try:
            from pygaps.parsing.json import isotherm_from_json
            _same(ctx, "json-parse:" + route, ref, isotherm_from_json(gen.build_point(spec, route).to_json()), spec)
        except Exception as exc:
            ctx.violation("identity/json-parse-raises/%s" % route, "JSON export/parse raised for a table with unusual row labels", exc=exc)
    # parse of the JSON export
    try:
        from pygaps.parsing.json import isotherm_from_json
        _same(ctx, "json-parse", ref, isotherm_from_json(ref.to_json()), spec)
    except Exception as exc:
        ctx.violation("identity/json-parse-raises", "JSON export/parse raised", exc=exc, spec=spec)
    # a conversion to relative pressure, once as such and once naming a (meaningless) unit along with it: the same isotherm
    try:
        ca, cb = gen.copy_point(ref), gen.copy_point(ref)
        ca.convert_pressure(mode_to="relative")
        cb.convert(pressure_mode="relative", pressure_unit="kPa")
        _same(ctx, "converted-to-relative-with-and-without-a-unit", ca, cb, spec)
        from pygaps.parsing.json import isotherm_from_json
        _same(ctx, "converted-to-relative-with-a-unit:json-parse", cb, isotherm_from_json(cb.to_json()), spec)
    except Exception:
        ctx.count("skipped", "conversion to relative pressure refused")
    # the same keyword dictionary (holding a material dictionary) used twice
    if isinstance(spec["material"], dict):
        kw2 = gen._kw(spec)
        try:
            first = pygaps.PointIsotherm(pressure=list(spec["pressure"]), loading=list(spec["loading"]), branch=[bool(x) for x in spec["branch"]], **kw2)
            second = pygaps.PointIsotherm(pressure=list(spec["pressure"]), loading=list(spec["loading"]), branch=[bool(x) for x in spec["branch"]], **kw2)
            _same(ctx, "same-keyword-dictionary-twice", first, second, spec)
        except Exception as exc:
            ctx.violation("identity/same-keyword-dictionary-twice-raises", "building two isotherms from one keyword dictionary raised", exc=exc)
    # zero, negative zero and values that round to zero at 8 decimals are one value
    for z in (-0.0, -1e-10, 1e-10):
        sz_a, sz_b = copy.deepcopy(spec), copy.deepcopy(spec)
        sz_a["loading"][0], sz_b["loading"][0] = 0.0, z
        try:
            _same(ctx, "zero-representations", gen.build_point(sz_a, "lists"), gen.build_point(sz_b, "lists"), spec)
        except Exception as exc:
            ctx.error("c05: zero representations", exc)
    # parse of the CSV / AIF export of an isotherm whose data carry information down to the 8th decimal (what the identifier resolves)
    s8 = gen.point_spec(r, n=r.randint(3, 12), units=dict(gen.DEFAULT_UNITS, temperature_unit="°C") if case["seed"] % 2 else None, two_branches=False, extras=False, meta={}, decimals=8)
    s8["pressure"] = [round(x + 3e-7, 8) for x in s8["pressure"]]
    try:
        from pygaps.parsing.aif import isotherm_from_aif
        from pygaps.parsing.csv import isotherm_from_csv
        plain8 = gen.build_point(s8, "lists")
        if case["seed"] % 3 == 0 and len(s8["branch"]) >= 3:
            # an adsorption - desorption - readsorption record (AIF keeps two loops, one per branch, and cannot carry the
            # interleaving: it gets the record before this step)
            s8["branch"] = [0, 1, 0] + [r.randint(0, 1) for _ in s8["branch"][3:]]
        if case["seed"] % 3 == 1:
            s8["pressure"][0], s8["loading"][0] = 0.0, 0.0  # (a record that starts with the origin point)
        ref8 = gen.build_point(s8, "lists")
        _same(ctx, "csv-parse", ref8, isotherm_from_csv(ref8.to_csv()), s8)
        aif8 = ref8 if case["seed"] % 3 else plain8
        _same(ctx, "aif-parse", aif8, isotherm_from_aif(aif8.to_aif()), s8)
        from pygaps.parsing.json import isotherm_from_json
        _same(ctx, "json-parse", ref8, isotherm_from_json(ref8.to_json()), s8)
        from pygaps.parsing.excel import isotherm_from_xl
        xp = os.path.join(tempfile.gettempdir(), "pgverif-c05-%d-%d.xls" % (os.getpid(), case["seed"]))
        try:
            ref8.to_xl(xp)
            _same(ctx, "excel-parse", ref8, isotherm_from_xl(xp), s8)
        finally:
            try:
                os.unlink(xp)
            except OSError:
                pass
    except Exception as exc:
        ctx.violation("identity/text-export-parse-raises", "CSV / AIF export/parse raised", exc=exc, spec=s8)
    # reconstructed copy
    _same(ctx, "copy-via-to_dict", ref, gen.copy_point(ref), spec)
    # below-threshold perturbation (data have 4 decimals)
    for col in ("pressure", "loading"):
        s2 = copy.deepcopy(spec)
        k = r.randrange(len(s2[col]))
        s2[col][k] = s2[col][k] + 1e-10
        _same(ctx, "sub-threshold:" + col, ref, gen.build_point(s2, "df"), spec)
    # identity is stable under reading
    before = ref.iso_id
    try:
        ref.pressure(branch="ads")
        ref.loading(branch="ads", indexed=True)
        ref.data()
        lo, hi = min(spec["pressure"][:spec["branch"].count(0)]), max(spec["pressure"][:spec["branch"].count(0)])
        if spec["branch"].count(0) >= 2:
            ref.loading_at((lo + hi) / 2)
            ref.pressure_at((spec["loading"][0] + spec["loading"][1]) / 2)
            ref.spreading_pressure_at((lo + hi) / 2)
        ref.to_dict()
        str(ref)
    except Exception:
        ctx.count("read_only_calls", "raised")
    ctx.case([_digest(spec), "same", "after-reads"])
    ctx.count("same_pairs", "after-reads")
    if ref.iso_id != before:
        ctx.violation("identity/changes-after-reads", "identifier changed after read-only calls", spec=spec)
    # ... also when the reads convert through the material's properties (given as integers, as read from a file or typed by a user)
    s3 = copy.deepcopy(spec)
    mname = s3["material"]["name"] if isinstance(s3["material"], dict) else s3["material"]
    s3["material"] = {"name": mname + "-int", "density": 2, "molar_mass": 150}
    try:
        tw = gen.build_point(s3, "df")
        twin_id = gen.build_point(copy.deepcopy(s3), "df").iso_id
        before = tw.iso_id
        for kw in ({"material_basis": "volume", "material_unit": "cm3"}, {"material_basis": "molar", "material_unit": "mol"}, {"loading_basis": "mass", "loading_unit": "mg"},
                   {"loading_basis": "fraction"}, {"pressure_mode": "relative"}):
            try:
                with numpy.errstate(all="ignore"):
                    tw.pressure(branch="ads", **kw) if "pressure_mode" in kw else tw.loading(branch="ads", **kw)
                    if spec["branch"].count(0) >= 2 and "pressure_mode" not in kw:
                        tw.loading_at((lo + hi) / 2, **kw)
            except Exception:
                ctx.count("read_only_calls", "raised")
        tw.material.density, tw.material.molar_mass, tw.adsorbate.molar_mass()
        ctx.case([_digest(spec), "same", "after-converting-reads"])
        ctx.count("same_pairs", "after-converting-reads")
        if tw.iso_id != before or tw.iso_id != twin_id or tw.iso_id != gen.build_point(copy.deepcopy(s3), "df").iso_id:
            ctx.violation("identity/changes-after-reads", "identifier changed after read-only calls in other units / bases", material=s3["material"], before=before, after=tw.iso_id)
    except Exception as exc:
        ctx.error("c05: converting reads", exc)
    # ---------------- minimally different content
    base = gen.build_point(spec, "df")

    def variant(mut):
        s2 = copy.deepcopy(spec)
        mut(s2)
        return gen.build_point(s2, "df")

    def m_meta_val(s):
        s["meta"]["user"] = "someone else" if s["meta"].get("user") != "someone else" else "another"

    _diff(ctx, "metadata-value", base, variant(m_meta_val), spec)
    _diff(ctx, "metadata-key-added", base, variant(lambda s: s["meta"].__setitem__("extra_key_zz", 1)), spec)
    # a difference confined to characters outside ASCII (alpha / gamma alumina, Mueller / Moeller with umlauts, micro sign / Greek mu)
    for a_txt, b_txt in (("α-Al2O3", "γ-Al2O3"), ("Müller", "Möller"), ("45 µm", "45 μm")):
        _diff(ctx, "metadata-value-non-ascii", variant(lambda s: s["meta"].__setitem__("phase_or_name", a_txt)), variant(lambda s: s["meta"].__setitem__("phase_or_name", b_txt)), spec)
    # equal content held in different objects: NaN, and a sequence given as tuple or as list (what a JSON parse returns)
    _same(ctx, "metadata-nan-in-two-objects", variant(lambda s: s["meta"].__setitem__("ratio", float("nan"))), variant(lambda s: s["meta"].__setitem__("ratio", numpy.float64("nan") * 1.0)), spec)
    _same(ctx, "metadata-tuple-vs-list", variant(lambda s: s["meta"].__setitem__("cycle", (1, 2, 3))), variant(lambda s: s["meta"].__setitem__("cycle", [1, 2, 3])), spec)
    if spec["meta"]:
        k0 = sorted(spec["meta"])[0]
        _diff(ctx, "metadata-key-removed", base, variant(lambda s: s["meta"].pop(k0)), spec)
        _diff(ctx, "metadata-key-renamed", base, variant(lambda s: s["meta"].__setitem__(k0 + "_", s["meta"].pop(k0))), spec)
    u = spec["units"]
    alt = {
        "pressure_unit": ("kPa" if u["pressure_unit"] != "kPa" else "Pa") if u["pressure_mode"] == "absolute" else None,
        "pressure_mode": "relative" if u["pressure_mode"] != "relative" else "relative%",
        "loading_unit": {"molar": ("mol", "mmol"), "mass": ("g", "mg"), "volume_gas": ("cm3", "L"), "volume_liquid": ("cm3", "L")}.get(u["loading_basis"]),
        "loading_basis": None,
        "material_unit": {"mass": ("g", "kg"), "volume": ("cm3", "L"), "molar": ("mol", "mmol")}[u["material_basis"]],
        "temperature_unit": "°C" if u["temperature_unit"] == "K" else "K",
    }
    for label, val in alt.items():
        if val is None:
            continue
        if isinstance(val, tuple):
            val = val[0] if u[label] != val[0] else val[1]

        def m(s, label=label, val=val):
            s["units"][label] = val
            if label == "pressure_mode":
                s["units"]["pressure_unit"] = None

        try:
            _diff(ctx, "unit-label:" + label, base, variant(m), spec)
        except Exception as exc:
            ctx.count("diff_variant_unbuildable", label)
    # volume_gas <-> volume_liquid share their unit table: a pure basis-label change
    if u["loading_basis"] in ("volume_gas", "volume_liquid"):
        _diff(ctx, "unit-label:loading_basis", base, variant(lambda s: s["units"].__setitem__("loading_basis", "volume_liquid" if u["loading_basis"] == "volume_gas" else "volume_gas")), spec)
    if u["loading_basis"] in ("fraction", "percent"):
        _diff(ctx, "unit-label:loading_basis", base, variant(lambda s: s["units"].__setitem__("loading_basis", "percent" if u["loading_basis"] == "fraction" else "fraction")), spec)

    def m_matname(s):
        if isinstance(s["material"], dict):
            s["material"]["name"] += "-b"
        else:
            s["material"] += "-b"

    _diff(ctx, "material-name", base, variant(m_matname), spec)
    if isinstance(spec["material"], dict):
        _diff(ctx, "material-property", base, variant(lambda s: s["material"].__setitem__("density", s["material"]["density"] * 1.5)), spec)
        _diff(ctx, "material-property-added", base, variant(lambda s: s["material"].__setitem__("colour", "blue")), spec)
    _diff(ctx, "adsorbate", base, variant(lambda s: s.__setitem__("adsorbate", "argon" if s["adsorbate"] != "argon" else "nitrogen")), spec)
    _diff(ctx, "temperature", base, variant(lambda s: s.__setitem__("temperature", s["temperature"] + 0.5)), spec)
    for col in ("pressure", "loading"):
        k = r.randrange(len(spec[col]))

        def m(s, col=col, k=k):
            s[col][k] = s[col][k] + 1e-6

        _diff(ctx, "data-value:" + col, base, variant(m), spec)
    if len(spec["pressure"]) >= 2:
        i, j = 0, len(spec["pressure"]) - 1

        def swap(s):
            for col in ("pressure", "loading", "branch"):
                s[col][i], s[col][j] = s[col][j], s[col][i]

        _diff(ctx, "rows-swapped", base, variant(swap), spec)
    k = r.randrange(len(spec["branch"]))
    _diff(ctx, "branch-mark-flipped", base, variant(lambda s: s["branch"].__setitem__(k, 1 - s["branch"][k])), spec)
    _diff(ctx, "row-dropped", base, variant(lambda s: [s[c].pop() for c in ("pressure", "loading", "branch")]), spec)
    # extra column present / value changed
    sx = copy.deepcopy(spec)
    sx["extra"]["enthalpy"] = [float(i) for i in range(len(spec["pressure"]))]
    sx["extra"]["Zeta"] = [float(2 * i + 1) for i in range(len(spec["pressure"]))]
    sx["extra"]["alpha"] = [0.5 * i for i in range(len(spec["pressure"]))]
    withx = gen.build_point(sx, "df")
    _diff(ctx, "extra-column-added", base, withx, spec)
    sy = copy.deepcopy(sx)
    sy["extra"]["enthalpy"][-1] += 0.001
    _diff(ctx, "extra-column-value", withx, gen.build_point(sy, "df"), spec)
    for route in ("df_offset", "df_perm", "df_str", "df_cols"):
        _same(ctx, "route+extra:" + route, withx, gen.build_point(sx, route), spec)
    # tabulated only (type is content for metadata): 3 vs 3.0
    a = variant(lambda s: s["meta"].__setitem__("numkey", 3))
    b = variant(lambda s: s["meta"].__setitem__("numkey", 3.0))
    ctx.count("tabulated_only", "metadata 3 vs 3.0 -> %s" % ("same id" if a.iso_id == b.iso_id else "different id"))


def _run_model(case, ctx):
    import pygaps
    r = gen.rng(case["seed"], "m")
    name = case["model"]
    params = GM.random_params(name, r)
    meta = gen.json_metadata(r, rich=False)
    units = gen.random_units(r, fraction_ok=False)
    spec = {"model": name, "params": params, "meta": meta, "units": units, "prange": [0.01, 2.5], "lrange": [0.1, 7.5], "rmse": 0.0125}

    def build(s, branch="ads"):
        m = GM.make_model(s["model"], s["params"], pressure_range=tuple(s["prange"]), loading_range=tuple(s["lrange"]), rmse=s["rmse"])
        kw = dict(s["units"])
        kw.update(copy.deepcopy(s["meta"]))
        return pygaps.ModelIsotherm(model=m, branch=branch, material="verif-mm", adsorbate="nitrogen", temperature=77.0 if kw["temperature_unit"] == "K" else -196.15, **kw)

    try:
        base = build(spec)
    except Exception as exc:
        ctx.error("c05: model construction failed", exc)
        return
    _same(ctx, "model:rebuilt", base, build(spec), spec)
    # models fitted from data: the same data as integers / floats, and through guess() with a single candidate
    if case["seed"] % 2 == 0:
        kwf = dict(gen.DEFAULT_UNITS, material="verif-mf", adsorbate="nitrogen", temperature=77.0)
        pi = [1, 2, 3, 4, 6, 8]
        li = [2, 4, 6, 8, 12, 16]
        try:
            fa = pygaps.ModelIsotherm(pressure=[float(x) for x in pi], loading=[float(x) for x in li], model="Henry", **kwf)
            fb = pygaps.ModelIsotherm(pressure=pi, loading=li, model="Henry", **kwf)
            _same(ctx, "model:fitted-int-vs-float-data", fa, fb, {"pressure": pi, "loading": li})
        except Exception as exc:
            ctx.violation("identity/fitted-model-id-raises", "the identifier of a model fitted from integer-typed data cannot be computed", exc=exc)
        try:
            pf = [0.1 * k for k in range(1, 13)]
            lf = [3 * 1.2 * x / (1 + 1.2 * x) for x in pf]
            direct = pygaps.ModelIsotherm(pressure=pf, loading=lf, model="Langmuir", **kwf)
            guessed = pygaps.ModelIsotherm.guess(pressure=pf, loading=lf, models=["Langmuir"], **kwf)
            _same(ctx, "model:guess-vs-direct-fit", direct, guessed, {"model": "Langmuir"})
        except Exception as exc:
            ctx.violation("identity/guess-raises", "guess() with one candidate raised", exc=exc)
    # via dictionary route (what parsers do)
    try:
        from pygaps.modelling import model_from_dict
        d = copy.deepcopy(base.model.to_dict())
        kw = dict(spec["units"])
        kw.update(copy.deepcopy(spec["meta"]))
        other = pygaps.ModelIsotherm(model=model_from_dict(d), branch="ads", material="verif-mm", adsorbate="nitrogen", temperature=base._temperature, **kw)
        _same(ctx, "model:from-dict", base, other, spec)
    except Exception as exc:
        ctx.violation("identity/model-from-dict-raises", "model_from_dict route raised", exc=exc, spec=spec)
    try:
        from pygaps.parsing.json import isotherm_from_json
        _same(ctx, "model:json-parse", base, isotherm_from_json(base.to_json()), spec)
    except Exception as exc:
        ctx.violation("identity/json-parse-raises", "JSON export/parse raised", exc=exc, spec=spec)
    before = base.iso_id
    try:
        base.loading_at(1.0)
        base.pressure(5)
        base.loading(5)
        str(base)
    except Exception:
        ctx.count("read_only_calls", "raised")
    ctx.case([_digest(spec), "same", "model:after-reads"])
    if base.iso_id != before:
        ctx.violation("identity/changes-after-reads", "identifier changed after read-only calls", spec=spec)

    def variant(mut):
        s2 = copy.deepcopy(spec)
        mut(s2)
        return build(s2)

    p0 = sorted(params)[r.randrange(len(params))]
    _diff(ctx, "model:parameter", base, variant(lambda s: s["params"].__setitem__(p0, s["params"][p0] * 1.0001 + 1e-7)), spec)
    # no rounding threshold is stated for model parameters: a relative 1e-9 change is a change
    _diff(ctx, "model:parameter-tiny-relative", base, variant(lambda s: s["params"].__setitem__(p0, s["params"][p0] * (1 + 1e-9) if s["params"][p0] else 1e-12)), spec)
    # parameters of small magnitude (affinity constants for pressures in Pa)
    small = copy.deepcopy(spec)
    small["params"][p0] = 2e-9
    small2 = copy.deepcopy(spec)
    small2["params"][p0] = 4e-9
    try:
        _diff(ctx, "model:parameter-small-magnitude", build(small), build(small2), spec)
    except Exception:
        ctx.count("diff_variant_unbuildable", "model:parameter-small-magnitude")
    _diff(ctx, "model:pressure_range", base, variant(lambda s: s.__setitem__("prange", [0.01, 2.6])), spec)
    _diff(ctx, "model:loading_range", base, variant(lambda s: s.__setitem__("lrange", [0.1, 7.6])), spec)
    _diff(ctx, "model:rmse", base, variant(lambda s: s.__setitem__("rmse", 0.02)), spec)
    _diff(ctx, "model:metadata", base, variant(lambda s: s["meta"].__setitem__("zz", "q")), spec)
    _diff(ctx, "model:unit-label", base, variant(lambda s: s["units"].__setitem__("material_unit", [x for x in {"mass": ("kg", "g"), "volume": ("L", "cm3"), "molar": ("kmol", "mol")}[s["units"]["material_basis"]] if x != s["units"]["material_unit"]][0])), spec)
    other_name = GM.same_params_model(name)
    if other_name:
        _diff(ctx, "model:name", base, variant(lambda s: s.__setitem__("model", other_name)), spec)
    try:
        _diff(ctx, "model:branch", base, build(spec, branch="des"), spec)
    except Exception:
        pass


def _run_base(case, ctx):
    r = gen.rng(case["seed"], "b")
    spec = gen.point_spec(r, n=3, units=gen.random_units(r), extras=False, meta=gen.json_metadata(r), material_props=gen.material_props(r) if r.random() < 0.5 else None)
    base = gen.build_base(spec)
    _same(ctx, "base:rebuilt", base, gen.build_base(spec), spec)
    from pygaps.core.baseisotherm import BaseIsotherm
    kw = gen._kw(spec)
    if kw["temperature"]:  # the shorthand t=0.0 is treated as "not given" by the constructor (outside C05)
        _same(ctx, "base:shorthands", base, BaseIsotherm(m=kw.pop("material"), a=kw.pop("adsorbate"), t=kw.pop("temperature"), **kw), spec)
    _same(ctx, "base:from-to_dict", base, BaseIsotherm(**copy.deepcopy(base.to_dict())), spec)
    try:
        from pygaps.parsing.json import isotherm_from_json
        _same(ctx, "base:json-parse", base, isotherm_from_json(base.to_json()), spec)
    except Exception as exc:
        ctx.violation("identity/json-parse-raises", "JSON export/parse raised", exc=exc, spec=spec)

    def variant(mut):
        s2 = copy.deepcopy(spec)
        mut(s2)
        return gen.build_base(s2)

    _diff(ctx, "base:metadata", base, variant(lambda s: s["meta"].__setitem__("zz", "q")), spec)
    _diff(ctx, "base:temperature", base, variant(lambda s: s.__setitem__("temperature", s["temperature"] + 1)), spec)
    _diff(ctx, "base:adsorbate", base, variant(lambda s: s.__setitem__("adsorbate", "krypton")), spec)
    # a point isotherm and a metadata-only isotherm with the same metadata are different things
    _diff(ctx, "base-vs-point", base, gen.build_point(spec, "lists"), spec)


_CHILD = r"""
import json, sys, logging, warnings
warnings.filterwarnings("ignore")
import pygaps
logging.getLogger("pygaps").setLevel(logging.CRITICAL)
from pgverif import gen
specs = json.load(sys.stdin)
out = []
for s in specs:
    try:
        out.append(gen.build_point(s, "df").iso_id)
    except Exception as exc:
        out.append("EXC " + repr(exc))
print("IDS" + json.dumps(out))
"""


def _run_process(case, ctx):
    r = gen.rng(case["seed"], "p")
    specs = []
    for i in range(case["n"]):
        meta = gen.json_metadata(r)
        specs.append(gen.point_spec(r, units=gen.random_units(r) if i % 2 else None, meta=meta, extras=i % 3 == 0, material_props=gen.material_props(r) if i % 4 == 0 else None))
        if i % 3 == 1:
            # a text column next to the numbers (valve state, step name)
            specs[-1]["extra"]["valve"] = [r.choice(["open", "closed", "dosing", "ünï"]) for _ in specs[-1]["pressure"]]
    # two records of a gas the library does not know, spelled with another capitalisation in the second; the other process builds
    # everything in the opposite order (what an identifier is does not depend on what was built before it in the session)
    for spelling in ("verif-unlisted-gas-%d" % (case["seed"] % 7), "Verif-Unlisted-GAS-%d" % (case["seed"] % 7)):
        specs.append(dict(copy.deepcopy(specs[0]), adsorbate=spelling, extra={}))
    here = [gen.build_point(s, "df").iso_id for s in specs]
    env = dict(os.environ)
    env["PYTHONHASHSEED"] = str(case["hashseed"])
    try:
        p = subprocess.run([sys.executable, "-c", _CHILD], input=json.dumps(specs[::-1]), capture_output=True, text=True, env=env, timeout=120)
        line = [l for l in p.stdout.splitlines() if l.startswith("IDS")][-1]
        there = json.loads(line[3:])[::-1]
    except Exception as exc:
        ctx.error("c05: child process failed", exc)
        return
    for s, a, b in zip(specs, here, there):
        ctx.case([_digest(s), "same", "process:hashseed=%s" % case["hashseed"]])
        ctx.count("same_pairs", "other-process-other-hashseed")
        if a != b:
            ctx.violation("identity/process-dependent", "identifier differs in another process / PYTHONHASHSEED", here=a, there=b, spec=s)


def finalize(ctx):
    reasons = []
    same = ctx.tables.get("same_pairs", {})
    diff = ctx.tables.get("diff_pairs", {})
    if len(same) < 20:
        reasons.append("fewer than 20 kinds of equal-content pairs exercised (%d)" % len(same))
    if len(diff) < 25:
        reasons.append("fewer than 25 kinds of different-content pairs exercised (%d)" % len(diff))
    if same.get("other-process-other-hashseed", 0) < 12:
        reasons.append("child-process comparison did not run")
    for label, (hit, tot) in ctx.reach.items():
        if tot and not hit:
            reasons.append("anchored function %s never entered" % label)
    return reasons
