"""C07 — CSV, Excel and AIF round trips preserve the isotherm (round-trip postcondition monitor)."""

import copy
import math
import os
import shutil
import tempfile

import numpy

from pgverif import gen
from pgverif import models as GM
from pgverif.core import close

LEVEL = "exploration"
RULE = (
    "one case = one really built isotherm exported and re-imported through one format (csv / excel / aif; string and "
    "file targets); evaluations = clause comparisons (material+properties, adsorbate, temperature, unit labels, data "
    "columns at 8 decimals, branch assignment and order, model name/params/ranges, in-domain metadata values, == when "
    "all of that holds); distinct = (format, digest of the isotherm spec); out-of-domain metadata probes are executed and "
    "tabulated only (counted as trivial)"
)
ASSUMPTIONS = [
    "value domain CSV/AIF: keys without separator or blank; numbers, booleans, text that is not the spelling of a number/"
    "boolean/none/list, has no separator/quote and no leading/trailing blank; Excel: non-empty scalars",
    "branches are contiguous (adsorption rows, then desorption rows): AIF stores one loop per branch",
    "== is only judged when every content comparison passed and the data carry at most 6 decimals",
]
NSHARDS = {"quick": 12, "thorough": 16}
TIMEOUT = {"quick": 240, "thorough": 2400}
FORMATS = ["csv", "excel", "aif"]
_TMP = None


def setup(ctx):
    global _TMP
    _TMP = tempfile.mkdtemp(prefix="pgverif-c07-")


def teardown(ctx):
    if _TMP:
        shutil.rmtree(_TMP, ignore_errors=True)


def anchors():
    from pygaps.parsing import aif
    from pygaps.parsing import csv
    from pygaps.parsing import excel
    from pygaps.utilities import string_utilities as su
    return [("isotherm_to_csv", csv.isotherm_to_csv), ("isotherm_from_csv", csv.isotherm_from_csv), ("isotherm_to_xl", excel.isotherm_to_xl), ("isotherm_from_xl", excel.isotherm_from_xl),
            ("isotherm_to_aif", aif.isotherm_to_aif), ("isotherm_from_aif", aif.isotherm_from_aif), ("cast_string", su.cast_string)]


def gen_cases(tier, seed):
    r = gen.rng(seed, "c07")
    n = 40 if tier == "quick" else 1700
    for fmt in FORMATS:
        for i in range(n):
            yield {"kind": "point", "fmt": fmt, "seed": r.randrange(1 << 30), "layout": ["ads", "two", "des", "two", "ads-unsorted", "two-unsorted"][i % 6], "target": "file" if (fmt == "excel" or i % 3 == 0) else "string"}
        for i in range(n // 2 if tier == "quick" else n):
            yield {"kind": "model", "fmt": fmt, "seed": r.randrange(1 << 30), "model": GM.MODEL_NAMES[i % len(GM.MODEL_NAMES)], "target": "file" if (fmt == "excel" or i % 3 == 0) else "string"}
        for i in range(10 if tier == "quick" else 400):
            yield {"kind": "base", "fmt": fmt, "seed": r.randrange(1 << 30), "target": "file" if (fmt == "excel" or i % 2 == 0) else "string"}
        for i in range((16 if fmt == "csv" else 6) if tier == "quick" else 200):
            yield {"kind": "probe", "fmt": fmt, "seed": r.randrange(1 << 30)}


def run_case(case, ctx):
    ctx.count("case_kinds", case["fmt"] + "/" + case["kind"])
    globals()["_run_" + case["kind"]](case, ctx)


# ------------------------------------------------------------------ domain metadata

DOMAIN_TEXT = ["plain", "with space", "ünïcödé-θ", "a/b", "MiXeD Case", "x" * 30, "dash-and_underscore", "2nd batch", "v1.2.3b",
               # very short texts (element symbols, flags): plain text like any other, however close to the spelling of a keyword
               "Ne", "no", "on", "one", "N", "O", "E", "non", "yes", "off", "e", "Na", "He", "x", "nul", "fals", "tru"]


def domain_metadata(r, fmt):
    out = {}
    keys = ["user", "date", "lab", "comment", "project", "machine", "activation_temperature", "note", "Ключ", "iso_ref", "data_source", "model_from", "branch_note", "raw_material_source", "ref_material_id", "x_adsorbate_lot"]
    if fmt == "aif":
        keys.remove("Ключ")  # CIF data names are restricted to printable ASCII
    for k in r.sample(keys, r.randint(0, 6)):
        kind = r.choice(["text", "int", "float", "bool", "negint", "bigfloat", "zero"])
        if kind == "zero":
            v = 0
        elif kind == "text":
            v = r.choice(DOMAIN_TEXT)
        elif kind == "int":
            v = r.randint(0, 5000)
        elif kind == "negint":
            v = -r.randint(1, 500)
        elif kind == "float":
            v = round(r.uniform(-100, 100), r.randint(1, 8))
            if v == int(v):
                v += 0.5
        elif kind == "bigfloat":
            v = r.choice([1.5e-300, 2.5e300, 0.1 + 0.2, 1 / 3, 6.02214076e23])
        else:
            v = r.random() < 0.5
        if fmt == "aif":
            # AIF schema fields are typed: operator/date are text, the degas temperature is a number
            if k in ("user", "date") and not isinstance(v, str):
                v = r.choice(DOMAIN_TEXT)
            if k == "activation_temperature" and (isinstance(v, (str, bool)) or isinstance(v, int)):
                v = round(r.uniform(20, 400), 2)
        out[k] = v
    return out


PROBES = ["", " padded ", "comma,inside", "quote'inside", "3", "3.0", "1e5", "True", "None", "nan", "[1 2]", None, [1, 2], {"a": 1}, float("nan"), "tab\tinside", "new\nline", 0, 0.0, False]


# ------------------------------------------------------------------ format drivers


_PATHS = [0]


def _sep(case, ctx):
    """CSV takes the separator the user asks for (the same on the way out and in): comma by default, else ; tab |"""
    if case["fmt"] != "csv":
        return None
    sep = [None, ";", "\t", "|", None, None][case["seed"] % 6]
    ctx.count("csv_separator", repr(sep) if sep else "default")
    return {"separator": sep} if sep else None


def _export_import(fmt, iso, target, tag, sepkw=None):
    """Returns (outcome, isotherm-or-exception, stage)."""
    from pygaps.parsing.aif import isotherm_from_aif
    from pygaps.parsing.aif import isotherm_to_aif
    from pygaps.parsing.csv import isotherm_from_csv
    from pygaps.parsing.csv import isotherm_to_csv
    from pygaps.parsing.excel import isotherm_from_xl
    from pygaps.parsing.excel import isotherm_to_xl
    # every other file name carries dots besides the extension ("MOF-5_N2_77.4K.aif")
    _PATHS[0] += 1
    stem = "iso-%s" % tag if _PATHS[0] % 2 else "iso-%s_77.4K.v2" % tag
    path = os.path.join(_TMP, "%s.%s" % (stem, {"csv": "csv", "excel": "xls", "aif": "aif"}[fmt]))
    try:
        try:
            if fmt == "csv":
                payload = isotherm_to_csv(iso, path if target == "file" else None, **(sepkw or {}))
            elif fmt == "excel":
                payload = isotherm_to_xl(iso, path)
            else:
                payload = isotherm_to_aif(iso, path if target == "file" else None)
        except Exception as exc:
            return "exc", exc, "export"
        src = path if (target == "file" or fmt == "excel") else payload
        try:
            if fmt == "csv":
                back = isotherm_from_csv(src, **(sepkw or {}))
            elif fmt == "excel":
                back = isotherm_from_xl(src)
            else:
                back = isotherm_from_aif(src)
        except Exception as exc:
            return "exc", exc, "import"
        return "ok", back, None
    finally:
        try:
            os.unlink(path)
        except OSError:
            pass


def _is_pg_error(exc):
    from pygaps.utilities.exceptions import pgError
    return isinstance(exc, pgError)


def _same_value(a, b):
    """Equal value in the sense of the statement (3 == 3.0 is the same value; True != 1 in type)."""
    if isinstance(a, bool) or isinstance(b, bool):
        return isinstance(a, bool) and isinstance(b, bool) and a == b
    if isinstance(a, (int, float)) and isinstance(b, (int, float, numpy.floating, numpy.integer)):
        return close(float(a), float(b), 1e-15)
    return type(a) is type(b) and a == b


def _compare_common(ctx, fmt, label, iso, back, meta, spec):
    """Clauses shared by the three classes. Returns True iff every content comparison passed."""
    ok = True
    ctx.case([fmt, label, "material"])
    if iso.material.name != back.material.name:
        ctx.violation("%s/%s/material-name" % (fmt, label), "material name changed", a=iso.material.name, b=back.material.name)
        ok = False
    pa, pb = iso.material.properties, back.material.properties
    if set(pa) != set(pb) or any(not _same_value(pa[k], pb[k]) for k in pa if k in pb):
        ctx.violation("%s/%s/material-properties" % (fmt, label), "material properties changed", a=pa, b=pb)
        ok = False
    elif any(type(pa[k]) is not type(pb[k]) for k in pa):
        ok = None if ok else ok
    ctx.case([fmt, label, "adsorbate"])
    if str(iso.adsorbate) != str(back.adsorbate):
        ctx.violation("%s/%s/adsorbate" % (fmt, label), "adsorbate changed", a=str(iso.adsorbate), b=str(back.adsorbate))
        ok = False
    ctx.case([fmt, label, "temperature"])
    if not close(iso._temperature, back._temperature, 1e-12) or not close(iso.temperature, back.temperature, 1e-12):
        ctx.violation("%s/%s/temperature" % (fmt, label), "temperature changed", a=[iso._temperature, iso.temperature], b=[back._temperature, back.temperature], unit=iso.temperature_unit)
        ok = False
    ctx.case([fmt, label, "units"])
    if dict(iso.units) != dict(back.units):
        diff = {k: (iso.units[k], back.units[k]) for k in iso.units if iso.units[k] != back.units[k]}
        ctx.violation("%s/%s/unit-labels/%s" % (fmt, label, "+".join(sorted(diff))), "unit labels changed", diff=diff, units=dict(iso.units))
        ok = False
    ctx.case([fmt, label, "metadata"])
    types_same = True
    for k, v in meta.items():
        if k not in back.properties:
            ctx.violation("%s/%s/metadata-lost" % (fmt, label), "an in-domain metadata entry was lost", mkey=k, value=v, back=back.properties)
            ok = False
        elif not _same_value(v, back.properties[k]):
            ctx.violation("%s/%s/metadata-value/%s" % (fmt, label, type(v).__name__), "an in-domain metadata value came back different", mkey=k, value=v, got=back.properties[k])
            ok = False
        elif type(v) is not type(back.properties[k]):
            types_same = False
            ctx.count("metadata_type_changes", "%s: %s -> %s" % (fmt, type(v).__name__, type(back.properties[k]).__name__))
    extra = set(back.properties) - set(meta)
    if extra:
        ctx.violation("%s/%s/metadata-invented" % (fmt, label), "metadata appeared that the original does not have", extra={k: back.properties[k] for k in extra})
        ok = False
    return ok, types_same


def _judge_equal(ctx, fmt, label, iso, back, content_ok, types_same, decimals, spec):
    if not content_ok or decimals > 6:
        return
    ctx.case([fmt, label, "=="])
    ctx.count("equality_judged", fmt + "/" + label)
    try:
        eq = back == iso
    except Exception as exc:
        ctx.violation("%s/%s/eq-raises" % (fmt, label), "== raised", exc=exc)
        return
    if not eq:
        key = "%s/%s/equal-content-not-equal" % (fmt, label)
        if not types_same:
            key += "/number-type-changed"
        ctx.violation(key, "the re-imported isotherm is not equal to the original although its content is", spec=spec, a=iso.to_dict(), b=back.to_dict())


def _refusal(ctx, fmt, label, res, stage, spec):
    """In-domain content: the format can carry it, so a refusal is a violation; its type is part of the key."""
    kind = "pgError" if _is_pg_error(res) else type(res).__name__
    ctx.violation("%s/%s/%s-raises/%s" % (fmt, label, stage, kind), "%s of in-domain content raised" % stage, exc=res, spec=spec)


def _run_point(case, ctx):
    fmt = case["fmt"]
    r = gen.rng(case["seed"], "p")
    units = gen.random_units(r) if r.random() < 0.8 else None
    meta = domain_metadata(r, fmt)
    mp = gen.material_props(r) if r.random() < 0.4 else None
    layout = case["layout"]
    n = r.choice([1, 2, 3, 8, 25]) if r.random() < 0.5 else r.randint(1, 40)
    decimals = r.choice([3, 6, 6, 10])
    spec = gen.point_spec(r, n=n, units=units, two_branches=(layout.startswith("two") and n >= 4), extras=r.random() < 0.5, meta=meta, material_props=mp, decimals=decimals)
    if layout.endswith("-unsorted") and n >= 4:
        # the rows of a branch in the order they were measured, not sorted by pressure (several dosing cycles, a pressure dip)
        na = spec["branch"].count(0)
        idx = list(range(na))
        r.shuffle(idx)
        idx += list(range(na, n))
        for col in ["pressure", "loading"] + list(spec["extra"]):
            src = spec[col] if col in spec else spec["extra"][col]
            new = [src[i] for i in idx]
            if col in spec:
                spec[col] = new
            else:
                spec["extra"][col] = new
    if layout == "des":
        spec["branch"] = [1] * n
        for col in ["pressure", "loading"] + list(spec["extra"]):
            if col in spec:
                spec[col] = spec[col][::-1]
            else:
                spec["extra"][col] = spec["extra"][col][::-1]
    if "Aux col" in spec["extra"]:
        spec["extra"]["Aux_col"] = spec["extra"].pop("Aux col")  # keys without blank (domain)
    if case["seed"] % 4 == 2 and spec["units"]["pressure_mode"] == "absolute":
        # a reading at exactly zero pressure (the origin point first, or a branch pumped down to vacuum last)
        k0 = 0 if spec["branch"][0] == 0 else n - 1
        spec["pressure"][k0], spec["loading"][k0] = 0.0, 0.0
        ctx.count("point_data", "%s/reading-at-zero-pressure" % fmt)
    gaps = False
    if fmt in ("csv", "excel") and case["seed"] % 4 == 1 and spec["extra"] and n >= 3:
        # a numeric extra column with a gap (a calorimeter signal that was not recorded at every point): the column stays numeric,
        # the gap stays a gap
        col = sorted(spec["extra"])[0]
        vals = list(spec["extra"][col])
        for j in r.sample(range(n), r.randint(1, max(1, n // 4))):
            vals[j] = float("nan")
        spec["extra"][col] = vals
        gaps = True
        ctx.count("point_data", "%s/numeric-extra-column-with-gaps" % fmt)
    if fmt in ("csv", "excel") and case["seed"] % 3 == 0:
        # a text column as instruments write it (segment / step names)
        spec["extra"]["segment"] = [r.choice(["ads", "des", "hold", "dose_3", "equil"]) for _ in range(n)]
    route = r.choice(["df", "df_offset", "df_branchcol"]) if spec["extra"] else r.choice(["lists", "df", "df_perm"])
    try:
        iso = gen.build_point(spec, route)
    except Exception as exc:
        ctx.error("c07: construction failed", exc)
        return
    tag = "%s-%d" % (fmt, case["seed"])
    st, back, stage = _export_import(fmt, iso, case["target"], tag, sepkw=_sep(case, ctx))
    label = "point"
    info = {"units": spec["units"], "n": n, "layout": layout, "extra": list(spec["extra"]), "meta": meta, "target": case["target"], "material": spec["material"]}
    ctx.case([fmt, label, case["seed"]])
    if r.random() < 0.02:
        ctx.sample({"fmt": fmt, "kind": "point", **info})
    if st != "ok":
        _refusal(ctx, fmt, label, back, stage, info)
        return
    import pygaps
    if not isinstance(back, pygaps.PointIsotherm):
        ctx.violation("%s/point/class-changed" % fmt, "re-imported isotherm is of another class", got=type(back).__name__)
        return
    ok, types_same = _compare_common(ctx, fmt, label, iso, back, meta, info)
    # data: every column to 8 decimals, branch assignment and order
    ctx.case([fmt, label, "data"])
    a, b = iso.data_raw, back.data_raw
    ren = {iso.pressure_key: back.pressure_key, iso.loading_key: back.loading_key}
    if sorted(str(ren.get(c, c)) for c in a.columns) != sorted(map(str, b.columns)) or len(a) != len(b):
        ctx.violation("%s/point/data-shape" % fmt, "columns or number of points changed", a=[list(a.columns), len(a)], b=[list(b.columns), len(b)])
        ok = False
    else:
        for c in a.columns:
            x, y = a[c].tolist(), b[ren.get(c, c)].tolist()
            if c == "branch":
                try:
                    same = [int(v) for v in x] == [int(v) for v in y]
                except (TypeError, ValueError):
                    same = False
                if not same:
                    ctx.violation("%s/point/branch-assignment" % fmt, "adsorption/desorption assignment or order changed", a=x, b=y, layout=layout)
                    ok = False
                continue
            if all(isinstance(u, str) for u in x):
                same = x == y
            else:
                try:
                    same = all((abs(float(u) - float(v)) <= 0.5e-8 + 1e-12 * abs(float(u))) or (u != u and isinstance(v, float) and v != v) for u, v in zip(x, y))
                except (TypeError, ValueError):
                    same = False
            if not same:
                ctx.violation("%s/point/data-column" % fmt, "a data column changed beyond the documented 8 decimals", col=c, a=x[:5], b=y[:5])
                ok = False
    _judge_equal(ctx, fmt, label, iso, back, ok, types_same, decimals, info)


def _run_model(case, ctx):
    import pygaps
    fmt = case["fmt"]
    r = gen.rng(case["seed"], "m")
    name = case["model"]
    ads_name, T = r.choice(gen.FIXED_CONTEXTS)
    units = gen.random_units(r, fraction_ok=r.random() < 0.5)
    if name in ("DR", "DA"):
        units["pressure_mode"], units["pressure_unit"] = "relative", None
    meta = domain_metadata(r, fmt)
    mp = gen.material_props(r) if r.random() < 0.4 else None
    Tst = T if units["temperature_unit"] == "K" else round(T - 273.15, 6)
    mat = dict(name="verif-c07m-%d" % case["seed"], **mp) if mp else "verif-c07m-%d" % case["seed"]
    P = GM.random_params(name, r)
    if name in GM.PRESSURE_EXPLICIT:
        lo, hi = GM.loading_window(name, P)
        rng = dict(loading_range=(round(hi * 0.05, 8), round(hi * 0.7, 8)), pressure_range=(0.01, 1.5))
    else:
        lo, hi = GM.pressure_window(name, P)
        rng = dict(pressure_range=(float("%.8g" % (hi * 0.01)), float("%.8g" % (hi * 0.8))), loading_range=(0.05, 2.5))
    iso = None
    # a model may describe the desorption branch
    brkw = {"branch": "des"} if case["seed"] % 4 == 1 else {}
    if brkw:
        ctx.count("models", fmt + "/desorption-branch")
    if case["seed"] % 3 == 0 and name in GM.WELL_POSED_FIT:
        # a model fitted from data (parameters, ranges and rmse are whatever the fit produced: numpy scalars, many digits)
        Pf = GM.random_params(name, r, typed=False)
        ps = GM.sample_pressures(name, Pf, r, 15)
        m0 = GM.make_model(name, Pf, temperature=T)
        ls = [float(numpy.asarray(m0.loading(x)).ravel()[0]) for x in ps]
        if all(math.isfinite(x) and x > 0 for x in ls) and len(set(ls)) >= 5:
            try:
                iso = pygaps.ModelIsotherm(pressure=ps, loading=ls, model=name, material=copy.deepcopy(mat), adsorbate=ads_name, temperature=Tst, **brkw, **units, **copy.deepcopy(meta))
                P = dict(iso.model.params)
                rng = dict(pressure_range=iso.model.pressure_range, loading_range=iso.model.loading_range)
                ctx.count("models", fmt + "/fitted")
            except Exception:
                iso = None
    if iso is None:
        model = GM.make_model(name, P, rmse=round(r.uniform(0.001, 0.2), 6), temperature=T, **rng)
        iso = pygaps.ModelIsotherm(model=model, material=copy.deepcopy(mat), adsorbate=ads_name, temperature=Tst, **brkw, **units, **copy.deepcopy(meta))
    info = {"model": name, "params": P, "units": dict(iso.units), "meta": meta, "target": case["target"], "ranges": {k: [float(x) for x in v] for k, v in rng.items()}}
    st, back, stage = _export_import(fmt, iso, case["target"], "%s-m%d" % (fmt, case["seed"]), sepkw=_sep(case, ctx))
    label = "model"
    ctx.case([fmt, label, case["seed"]])
    ctx.count("models", fmt + "/" + name)
    if st != "ok":
        _refusal(ctx, fmt, label, back, stage, info)
        return
    if not isinstance(back, pygaps.ModelIsotherm):
        ctx.violation("%s/model/class-changed" % fmt, "re-imported isotherm is of another class", got=type(back).__name__)
        return
    ok, types_same = _compare_common(ctx, fmt, label, iso, back, meta, info)
    ctx.case([fmt, label, "model"])
    ma, mb = iso.model, back.model
    if ma.name != mb.name:
        ctx.violation("%s/model/name" % fmt, "model name changed", a=ma.name, b=mb.name)
        ok = False
    try:
        pars_ok = set(ma.params) == set(mb.params) and all(close(float(ma.params[k]), float(mb.params[k]), 1e-15) for k in ma.params)
    except (TypeError, ValueError):
        pars_ok = False
    if not pars_ok:
        ctx.violation("%s/model/parameters" % fmt, "model parameters changed", a=ma.params, b=mb.params)
        ok = False
    try:
        rng_ok = all(close(float(x), float(y), 1e-15) for x, y in zip(list(ma.pressure_range) + list(ma.loading_range), list(mb.pressure_range) + list(mb.loading_range)))
    except (TypeError, ValueError):
        rng_ok = False
    if not rng_ok:
        ctx.violation("%s/model/ranges" % fmt, "model ranges changed", a=[ma.pressure_range, ma.loading_range], b=[mb.pressure_range, mb.loading_range])
        ok = False
    if iso.branch != back.branch:
        ctx.violation("%s/model/branch" % fmt, "the branch the model describes changed", a=iso.branch, b=back.branch)
        ok = False
    rmse_same_type = type(mb.rmse) in (float, numpy.float64) or isinstance(mb.rmse, float)
    if ok and not rmse_same_type:
        ctx.violation("%s/model/rmse-type" % fmt, "the fit error came back as %s instead of a number (isotherm no longer equal)" % type(mb.rmse).__name__, a=ma.rmse, b=mb.rmse)
        ok = False
    _judge_equal(ctx, fmt, label, iso, back, ok, types_same, 0, info)


def _run_base(case, ctx):
    fmt = case["fmt"]
    r = gen.rng(case["seed"], "b")
    mp = gen.material_props(r) if r.random() < 0.5 else None
    meta = domain_metadata(r, fmt)
    spec = gen.point_spec(r, n=2, units=gen.random_units(r), extras=False, meta=meta, material_props=mp)
    iso = gen.build_base(spec)
    info = {"units": spec["units"], "meta": meta, "material": spec["material"], "target": case["target"], "temperature": spec["temperature"]}
    st, back, stage = _export_import(fmt, iso, case["target"], "%s-b%d" % (fmt, case["seed"]), sepkw=_sep(case, ctx))
    ctx.case([fmt, "base", case["seed"]])
    if st != "ok":
        _refusal(ctx, fmt, "base", back, stage, info)
        return
    ok, types_same = _compare_common(ctx, fmt, "base", iso, back, meta, info)
    _judge_equal(ctx, fmt, "base", iso, back, ok, types_same, 0, info)


def _run_probe(case, ctx):
    """Out-of-domain values: executed and tabulated (refused / preserved / silently changed), never a verdict."""
    fmt = case["fmt"]
    r = gen.rng(case["seed"], "x")
    for v in r.sample(PROBES, 6):
        spec = gen.point_spec(r, n=3, units=None, extras=False, meta={"probe": copy.deepcopy(v)})
        try:
            iso = gen.build_base(spec)
        except Exception:
            continue
        st, back, stage = _export_import(fmt, iso, "file", "%s-x%d" % (fmt, case["seed"]))
        ctx.case([fmt, "probe", repr(v)], nontrivial=False)
        if st != "ok":
            out = "refused at %s with %s" % (stage, "pgError" if _is_pg_error(back) else type(back).__name__)
        else:
            got = back.properties.get("probe", "<missing>")
            same = (got == v and type(got) is type(v)) or (isinstance(v, float) and isinstance(got, float) and math.isnan(v) and math.isnan(got))
            out = "preserved" if same else "silently changed to %r" % (got, )
        ctx.count("out_of_domain_probes", "%s: %r -> %s" % (fmt, v, out))
    if fmt == "csv":
        _run_separator_probe(case, ctx, r)
    if fmt == "aif":
        _run_quote_probe(case, ctx, r)


def _run_quote_probe(case, ctx, r):
    """Free text with an apostrophe or a line break is the class the AIF writer's own quoting cannot always carry: such a value is
    refused (with whatever error the reader has - tabulated) or comes back as it was; it never comes back with delimiters glued
    on or pieces missing. A verdict, like the separator class of CSV."""
    # (text that *begins or ends* with an apostrophe loses it on import - the reader strips the writer's quotes with str.strip -
    # which the tabulated probes show; it lies outside the quantifier like all quoted text and is not made a verdict here)
    texts = ["the sample wasn't degassed", "operators' notes", "it's 5 o'clock", "first line\nsecond line", "a 'b' c", "don't / won't"]
    v = r.choice(texts)
    where = r.choice(["metadata", "material-property"])
    spec = gen.point_spec(r, n=3, units=None, extras=False, meta={"note_x": v} if where == "metadata" else {}, material_props={"note_x": v} if where != "metadata" else None)
    try:
        iso = gen.build_base(spec)
    except Exception:
        return
    target = r.choice(["file", "string"])
    st, back, stage = _export_import("aif", iso, target, "aif-q%d" % case["seed"])
    ctx.case(["aif", "quote-probe", v, where, target])
    if st != "ok":
        ctx.count("quote_probes", "%s: refused at %s with %s" % (where, stage, "pgError" if _is_pg_error(back) else type(back).__name__))
        return
    got = (back.properties if where == "metadata" else back.material.properties).get("note_x", "<missing>")
    if got != v or type(got) is not str:
        ctx.violation("aif/quoted-text/silently-changed", "free text with an apostrophe / a line break was neither refused nor preserved", value=v, got=got, where=where, target=target)
    ctx.count("quote_probes", "%s: preserved" % where)


def _run_separator_probe(case, ctx, r):
    """Text that contains the separator in use is the one out-of-domain class the CSV reader has a refusal mechanism for
    ("more than two values"): wherever the separator sits, the value is refused with a pyGAPS error or comes back as it was
    - a verdict, unlike the tabulated probes above."""
    for sep in (",", ";"):
        texts = ["a%sb" % sep, "%slead" % sep, "trail%s" % sep, "trail%s%s" % (sep, sep), "see tables 1 and 2%s" % sep, "a%s%sb" % (sep, sep), "x%s " % sep]
        v = r.choice(texts)
        where = r.choice(["metadata", "material-property"])
        spec = gen.point_spec(r, n=3, units=None, extras=False, meta={"probe": v} if where == "metadata" else {}, material_props={"probe": v} if where != "metadata" else None)
        try:
            iso = gen.build_base(spec)
        except Exception:
            continue
        target = r.choice(["file", "string"])
        st, back, stage = _export_import("csv", iso, target, "csv-s%d" % case["seed"], sepkw={"separator": sep})
        ctx.case(["csv", "separator-probe", sep, v, where, target])
        if st != "ok":
            if not _is_pg_error(back):
                ctx.violation("csv/separator-text/refused-with-foreign-error", "text containing the separator is refused, but not with a pyGAPS error", sep=sep, value=v, where=where, exc=back, stage=stage)
            ctx.count("separator_probes", "%r %s: refused" % (sep, where))
            continue
        got = (back.properties if where == "metadata" else back.material.properties).get("probe", "<missing>")
        if got != v or type(got) is not str:
            ctx.violation("csv/separator-text/silently-changed", "text containing the separator was neither refused nor preserved", sep=sep, value=v, got=got, where=where, target=target)
        ctx.count("separator_probes", "%r %s: preserved" % (sep, where))


def finalize(ctx):
    reasons = []
    k = ctx.tables.get("case_kinds", {})
    for fmt in FORMATS:
        for kind in ("point", "model", "base"):
            if k.get(fmt + "/" + kind, 0) < 5:
                reasons.append("fewer than 5 %s isotherms through %s" % (kind, fmt))
    if sum(ctx.tables.get("equality_judged", {}).values()) < 30:
        reasons.append("equality clause judged fewer than 30 times")
    for label, (hit, tot) in ctx.reach.items():
        if tot and not hit:
            reasons.append("anchored function %s never entered" % label)
    return reasons
