"""C11 — spreading pressure equals the integral of loading over ln p (postcondition monitor)."""

import math

import numpy
from scipy import integrate

from pgverif import gen
from pgverif import models as GM
from pgverif.core import close
from pgverif.ref import units as RU

LEVEL = "exploration"
RULE = (
    "model part: case = (model, parameters in bounds, pressures in the validity window); evaluations = comparisons of "
    "spreading_pressure(p) with an independent quadrature of the model's own loading in u = ln p over (-inf, ln p], plus "
    "the derived facts (limit 0, increasing, additivity, p dPi/dp = n, array = scalar, unit arguments through "
    "ModelIsotherm). point part: case = increasing data + query pressure; oracle = closed-form integral of the piecewise "
    "linear interpolant with the Henry segment. distinct = (clause, model or data digest, query class)"
)
ASSUMPTIONS = [
    "scipy.integrate.quad (epsrel 1e-11) in ln p is the reference; analytic antiderivatives are compared at relative 1e-7, "
    "models that themselves call quad at 2e-6 (their own default tolerance 1.5e-8 absolute/relative, scaled)",
    "point isotherms: adsorption branch with strictly increasing pressures",
]
NSHARDS = {"quick": 16, "thorough": 16}
TIMEOUT = {"quick": 240, "thorough": 2400}


def anchors():
    import pygaps
    from pygaps.core.modelisotherm import ModelIsotherm
    from pygaps.modelling import get_isotherm_model
    out = [(n + ".spreading_pressure", type(get_isotherm_model(n)).spreading_pressure) for n in GM.HAS_SPREADING]
    out += [("PointIsotherm.spreading_pressure_at", pygaps.PointIsotherm.spreading_pressure_at), ("ModelIsotherm.spreading_pressure_at", ModelIsotherm.spreading_pressure_at)]
    return out


def gen_cases(tier, seed):
    r = gen.rng(seed, "c11")
    per = 14 if tier == "quick" else 900
    for name in GM.HAS_SPREADING:
        n = per if name not in GM.QUAD_SPREADING else max(6, per // 3)
        for i in range(n):
            yield {"kind": "model", "model": name, "seed": r.randrange(1 << 30), "typed": i % 6 == 0}
    for i in range(40 if tier == "quick" else 2500):
        yield {"kind": "modeliso", "model": GM.HAS_SPREADING[i % len(GM.HAS_SPREADING)], "seed": r.randrange(1 << 30)}
    for i in range(80 if tier == "quick" else 6000):
        yield {"kind": "point", "seed": r.randrange(1 << 30)}


def run_case(case, ctx):
    ctx.count("case_kinds", case["kind"])
    globals()["_run_" + case["kind"]](case, ctx)


def _call(fn, *a, **k):
    try:
        with numpy.errstate(all="ignore"):
            return ("ok", fn(*a, **k))
    except Exception as exc:
        return ("exc", exc)


def _f(x):
    return float(numpy.asarray(x, dtype=float).reshape(-1)[0])


def _quad_lnp(load, p_lo, p_hi):
    """Integral of n(p) dln p between p_lo (may be 0) and p_hi using the model's own loading."""
    def g(u):
        with numpy.errstate(all="ignore"):
            v = _f(load(math.exp(u)))
        return v if math.isfinite(v) else 0.0

    b = math.log(p_hi)
    if p_lo == 0:
        # split the semi-infinite range: a finite window that carries most of the mass + the far tail
        v1, e1 = integrate.quad(g, b - 40.0, b, epsabs=0, epsrel=1e-12, limit=400)
        v2, e2 = integrate.quad(g, -numpy.inf, b - 40.0, epsabs=1e-14 * abs(v1), epsrel=1e-10, limit=400)
        return v1 + v2, e1 + e2
    val, err = integrate.quad(g, math.log(p_lo), b, epsabs=0, epsrel=1e-11, limit=400)
    return val, err


def _run_model(case, ctx):
    name = case["model"]
    r = gen.rng(case["seed"], "m")
    P = GM.random_params(name, r, typed=case.get("typed"))
    if name == "Freundlich":
        P["m"] = min(P["m"], 20.0)  # n ~ p^(1/m): beyond this the integrand's tail defeats any quadrature in ln p
    T = 77.355
    m = GM.make_model(name, P, temperature=T)
    if case["seed"] % 4 == 2 and len(m.params) > 1:
        # the parameter dictionary as the user wrote it down: same names, another order of the keys
        m.params = dict(reversed(list(m.params.items())))
        ctx.count("interference", name + "/parameter-dictionary-in-another-key-order")
    from pgverif.core import _h
    dg = _h(P)
    ps = GM.sample_pressures(name, P, r, 6)
    # a few pressures shared by every case (different isotherms of one model evaluated at exactly the same pressure in one process)
    wlo, whi = GM.pressure_window(name, P)
    ps = sorted(set(list(ps) + [x for x in (0.01, 0.05, 0.3, 0.5, 1.0) if wlo < x < whi * 0.98]))
    if name in ("Langmuir", "DSLangmuir", "TSLangmuir") and case["seed"] % 3 == 1:
        # far on the plateau of a strongly adsorbing site (K p of 1e12 ... 1e15): the integral keeps growing like n_m ln(K p)
        kmax = max(v for k_, v in P.items() if k_.startswith("K"))
        ps = sorted(set(ps + [float("%.4g" % (10**e_ / kmax)) for e_ in (12.3, 13.7, 15.2)]))
        ctx.count("interference", name + "/deep-plateau-pressures")
    if name in ("BET", "GAB"):
        # the last percent before the pole (N p or K p = 1): still inside the validity range
        pole = 1.0 / (P["N"] if name == "BET" else P["K"])
        ps = sorted(set(ps + [pole * 0.992, pole * 0.997]))
    # ... and another isotherm of the same model (other parameters) has just been evaluated at these pressures
    try:
        other = GM.make_model(name, GM.random_params(name, r, typed=False), temperature=T)
        for x in ps:
            _call(other.spreading_pressure, x)
        ctx.count("interference", name)
        if case["seed"] % 3 == 0:
            # ... or the very same model object was (a parameter sweep / a second fit re-uses it), before it got the parameters checked here
            for k_ in list(other.params):
                other.params[k_] = m.params[k_]
            m = other
            ctx.count("interference", name + "/same-object-re-used-with-new-parameters")
    except Exception:
        pass
    uses_quad = name in GM.QUAD_SPREADING
    rt = 2e-6 if uses_quad else 1e-7
    vals = []
    # floor of the attainable accuracy: log(1 + x) style antiderivatives carry an absolute rounding error of a few
    # ulp of the capacity; models calling quad with default tolerances carry its absolute tolerance (1.49e-8)
    cap = GM.saturation(name, P) or P.get("n_m") or 1.0
    atol0 = 4e-15 * cap + (5e-8 if name in GM.QUAD_SPREADING else 0.0)
    for p in ps:
        st, sp = _call(m.spreading_pressure, p)
        ctx.case([name, dg, "integral", p])
        if st != "ok":
            ctx.violation("%s.spreading_pressure/raises" % name, "spreading pressure raised inside the validity range", P=P, p=p, exc=sp)
            return
        sp = _f(sp)
        vals.append(sp)
        try:
            ref, err = _quad_lnp(m.loading, 0, p)
        except Exception as exc:
            ctx.count("reference_unavailable", name)
            continue
        if not math.isfinite(ref) or err > 1e-8 * abs(ref) + 1e-300:
            ctx.count("reference_unavailable", name + "/quadrature-not-converged")
            continue
        if abs(ref) < 1e-150:
            ctx.count("skipped", name + "/underflowing-values")
            continue
        ctx.count("integral_checked", name)
        # models that call quad with its default tolerances carry its absolute tolerance (1.49e-8)
        if not close(sp, ref, rt, 1e-12 * abs(ref) + atol0):
            key = "%s.spreading_pressure/integral" % name
            off = sp - ref
            if name == "TemkinApprox" and close(off, P["n_m"] * P["tht"] / 2.0, 1e-6, 1e-9 * abs(ref)):
                # quantitative confirmation of the mechanism: a constant n_m*theta/2 at every pressure
                key = "TemkinApprox.spreading_pressure/constant-offset=n_m*tht/2"
            ctx.violation(key, "spreading pressure differs from the integral of loading over ln p", P=P, p=p, got=sp, expected=ref, offset=off)
    if len(vals) != len(ps):
        return
    # ---- limit at zero pressure
    lo = GM.pressure_window(name, P)[0]
    p0 = min(ps[0], lo) * 1e-6
    st, s0 = _call(m.spreading_pressure, p0)
    ctx.case([name, dg, "zero-limit"])
    if st == "ok":
        s0 = _f(s0)
        ref0, _ = _quad_lnp(m.loading, 0, p0)
        scale = abs(vals[-1]) + 1e-300
        if abs(s0 - ref0) > 1e-7 * scale + 1e-9 * abs(ref0):
            key = "%s.spreading_pressure/zero-limit" % name
            if name == "TemkinApprox" and close(s0 - ref0, P["n_m"] * P["tht"] / 2.0, 1e-6, 1e-9 * scale):
                key = "TemkinApprox.spreading_pressure/constant-offset=n_m*tht/2"
            ctx.violation(key, "spreading pressure does not tend to zero with the pressure", P=P, p=p0, got=s0, expected=ref0, scale=scale)
    st, sz = _call(m.spreading_pressure, 0.0)
    ctx.case([name, dg, "at-zero"])
    if st == "ok" and math.isfinite(_f(sz)) and abs(_f(sz)) > 1e-9 * (abs(vals[-1]) + 1e-300):
        key = "%s.spreading_pressure/at-zero" % name
        if name == "TemkinApprox" and close(_f(sz), P["n_m"] * P["tht"] / 2.0, 1e-9):
            key = "TemkinApprox.spreading_pressure/constant-offset=n_m*tht/2"
        ctx.violation(key, "spreading pressure at p = 0 is not zero", P=P, got=sz)
    # ---- increasing, additivity
    ctx.case([name, dg, "increasing+additive"])
    for (p1, v1), (p2, v2) in zip(zip(ps, vals), zip(ps[1:], vals[1:])):
        if p2 <= p1:
            continue
        if v2 < v1 * (1 - 1e-9) - 1e-300:
            ctx.violation("%s.spreading_pressure/not-increasing" % name, "spreading pressure decreases with pressure", P=P, p=[p1, p2], v=[v1, v2])
        try:
            seg, err = _quad_lnp(m.loading, p1, p2)
        except Exception:
            continue
        ctx.count("additivity_checked", name)
        if abs(seg) < 1e-150:
            continue
        if not close(v2 - v1, seg, max(rt * (abs(v2) / max(abs(seg), 1e-300)), rt), 1e-12 * abs(v2) + 2 * atol0):
            ctx.violation("%s.spreading_pressure/additivity" % name, "Pi(p2) - Pi(p1) differs from the integral over [p1, p2]", P=P, p=[p1, p2], got=v2 - v1, expected=seg)
    # ---- p dPi/dp = n(p) (central differences in ln p)
    for p in ps[1:4]:
        h = 1e-3
        a, b = _call(m.spreading_pressure, p * math.exp(-h)), _call(m.spreading_pressure, p * math.exp(h))
        n = _call(m.loading, p)
        ctx.case([name, dg, "derivative", p])
        if a[0] == "ok" and b[0] == "ok" and n[0] == "ok":
            d = (_f(b[1]) - _f(a[1])) / (2 * h)
            tol = 2e-5 if not uses_quad else 2e-3
            # the difference quotient amplifies the (accepted) error of Pi by 1/h
            atol_d = (rt * abs(_f(b[1])) + atol0) / h
            # ... and has its own truncation error h^2/6 n''(ln p), estimated from the loading's second difference (large near the
            # pole of BET-type models)
            nm_, np_ = _call(m.loading, p * math.exp(-h)), _call(m.loading, p * math.exp(h))
            if nm_[0] == "ok" and np_[0] == "ok":
                atol_d += abs(_f(np_[1]) - 2 * _f(n[1]) + _f(nm_[1])) / 3
            if abs(_f(n[1])) > 1e-150 and p * math.exp(h) <= GM.pressure_window(name, P)[1] / 0.98 and not close(d, _f(n[1]), tol, atol_d):
                ctx.violation("%s.spreading_pressure/derivative" % name, "p dPi/dp differs from the loading", P=P, p=p, got=d, expected=_f(n[1]))
    # ---- arrays equal scalars (analytic antiderivatives)
    if not uses_quad:
        st, arr = _call(m.spreading_pressure, numpy.array(ps))
        ctx.case([name, dg, "array"])
        if st != "ok":
            ctx.violation("%s.spreading_pressure/array-raises" % name, "array input raised", P=P, exc=arr)
        elif not all(close(x, y, 1e-12) for x, y in zip(numpy.asarray(arr, dtype=float).ravel(), vals)):
            ctx.violation("%s.spreading_pressure/array-mismatch" % name, "array result differs from scalar results", P=P, got=arr, expected=vals)
    if r.random() < 0.05:
        ctx.sample({"model": name, "params": P, "p": ps[:3], "Pi": vals[:3]})


def _run_modeliso(case, ctx):
    """pressures given in other units or modes are converted first"""
    import pygaps
    name = case["model"]
    r = gen.rng(case["seed"], "mi")
    P = GM.random_params(name, r)
    ads_name, T = r.choice(gen.FIXED_CONTEXTS)
    fl = RU.fluid(gen.backend_of(ads_name))
    units = gen.random_units(r, relative_ok=True, fraction_ok=False)
    if name in ("DR", "DA"):
        units["pressure_mode"], units["pressure_unit"] = "relative", None
    model = GM.make_model(name, P, pressure_range=(0.0, 1.0), loading_range=(0.0, 1.0), temperature=T)
    Tst = T if units["temperature_unit"] == "K" else T - 273.15
    iso = pygaps.ModelIsotherm(model=model, material="verif-c11", adsorbate=ads_name, temperature=Tst, **units)
    native = (units["pressure_mode"], units["pressure_unit"])
    for q in range(4):
        rp = r.choice(RU.PRESSURE_REPR)
        p_nat = GM.sample_pressures(name, P, r, 1)[0]
        try:
            f = RU.pressure_factor(rp[0], rp[1], native[0], native[1], fl, T)  # requested -> native
        except Exception:
            ctx.count("reference_unavailable", "modeliso")
            continue
        exp = _call(model.spreading_pressure, p_nat)
        got = _call(iso.spreading_pressure_at, p_nat / f, pressure_mode=rp[0], pressure_unit=rp[1])
        nat = _call(iso.spreading_pressure_at, p_nat)
        ctx.case([name, "modeliso", native, rp], nontrivial=tuple(rp) != native)
        ctx.count("modeliso", "spreading_pressure_at")
        if exp[0] != "ok":
            continue
        rt = max(RU.rtol_for(rp[1], native[1]) * 3, 1e-6 if name in GM.QUAD_SPREADING else 1e-9)
        if nat[0] != "ok" or not close(_f(nat[1]), _f(exp[1]), 1e-12):
            ctx.violation("ModelIsotherm.spreading_pressure_at/native", "native call differs from the bare model", model=name, got=nat[1], expected=exp[1])
        if got[0] != "ok":
            ctx.violation("ModelIsotherm.spreading_pressure_at/foreign-units/raises", "pressure in other units/mode raised", model=name, units=units, req=rp, exc=got[1])
        else:
            # band through the local slope: p dPi/dp = n
            st, n = _call(model.loading, p_nat)
            slack = rt * (abs(_f(n)) if st == "ok" else 0.0) + rt * abs(_f(exp[1]))
            if abs(_f(got[1]) - _f(exp[1])) > slack + 1e-300:
                ctx.violation("ModelIsotherm.spreading_pressure_at/foreign-units/value", "pressure in other units/mode is not converted first", model=name, P=P, units=units, req=rp, got=got[1], expected=exp[1])
    got = _call(iso.spreading_pressure_at, GM.sample_pressures(name, P, r, 1)[0], branch="des")
    ctx.case([name, "modeliso", "wrong-branch"])
    if got[0] == "ok":
        ctx.violation("ModelIsotherm.spreading_pressure_at/wrong-branch", "a model on the adsorption branch answered for the desorption branch", model=name)


def _point_reference(ps, ls, p):
    """Closed-form integral of the piecewise-linear interpolant continued to the origin by Henry's law."""
    if p <= ps[0]:
        return ls[0] / ps[0] * p
    total = ls[0]
    k = 0
    while k + 1 < len(ps) and ps[k + 1] <= p:
        s = (ls[k + 1] - ls[k]) / (ps[k + 1] - ps[k])
        c = ls[k] - s * ps[k]
        total += s * (ps[k + 1] - ps[k]) + c * math.log(ps[k + 1] / ps[k])
        k += 1
    if p > ps[k] and k + 1 < len(ps):
        s = (ls[k + 1] - ls[k]) / (ps[k + 1] - ps[k])
        c = ls[k] - s * ps[k]
        total += s * (p - ps[k]) + c * math.log(p / ps[k])
    return total


def _run_point(case, ctx):
    import pygaps
    r = gen.rng(case["seed"], "pt")
    n = r.choice([2, 3, 5, 12, 60]) if r.random() < 0.5 else r.randint(2, 60)
    ads_name, T = r.choice(gen.FIXED_CONTEXTS)
    fl = RU.fluid(gen.backend_of(ads_name))
    absolute = r.random() < 0.7
    pu = r.choice(list(RU.PA)) if absolute else None
    units = dict(gen.DEFAULT_UNITS, pressure_mode="absolute" if absolute else r.choice(["relative", "relative%"]), pressure_unit=pu)
    pmax = 1.0 if units["pressure_mode"] != "relative%" else 100.0
    ps = gen.increasing(r, n, 1e-4 * pmax, pmax * 0.9, log=r.random() < 0.5)
    shape = r.choice(["increasing", "increasing", "concave", "with-plateau", "no-uptake-at-first"])
    if shape == "concave":
        ls = [5 * p / (p + 0.1 * pmax) for p in ps]
    elif shape == "with-plateau":
        ls = gen.increasing(r, n, 0.1, 5.0)
        ls[-1] = ls[-2] if n > 2 else ls[-1]
    elif shape == "no-uptake-at-first" and n >= 3:
        # type III / V: the first measured point(s) show no uptake yet (zero loading at a positive pressure)
        ls = gen.increasing(r, n, 0.01, 20.0)
        for j in range(r.randint(1, max(1, n // 3))):
            ls[j] = 0.0
    else:
        ls = gen.increasing(r, n, 0.01, 20.0)
    if case["seed"] % 5 == 3 and n >= 5:
        # increasing pressures, loadings that are not monotone: a reading on the plateau 0.2 % below its predecessor, or an excess
        # isotherm past its maximum (the integral is that of the interpolant through the points as they are paired)
        k_ = r.randint(2, n - 2)
        if r.random() < 0.5:
            ls[k_] = ls[k_ - 1] * 0.998
        else:
            for j in range(k_, n):
                ls[j] = ls[k_ - 1] * (1 - 0.03 * (j - k_ + 1))
        ctx.count("point_histories", "loadings-not-monotone")
    if case["seed"] % 5 == 1:
        # whole-number loadings delivered as integers (molecule counts of a simulation)
        ls = [int(k) for k in numpy.cumsum([r.randint(1, 4) for _ in range(n)])]
        ctx.count("point_shapes", "integer-typed-loadings")
    two = r.random() < 0.3 and n >= 4
    pp, ll, bb = list(ps), list(ls), [0] * n
    origin = case["seed"] % 4 == 0
    if origin:
        # the series starts with the origin point, as instruments report it; the interpolant from it to the first point *is* the Henry line
        pp, ll, bb = [0.0] + pp, [0.0] + ll, [0] + bb
        ctx.count("point_shapes", "starts-with-origin-point")
    if two:
        pp += [ps[-1] * 0.8, ps[-1] * 0.5]
        ll += [ls[-1] * 1.1, ls[-1] * 0.9]
        bb += [1, 1]
    iso = pygaps.PointIsotherm(pressure=pp, loading=ll, branch=[bool(b) for b in bb], material="verif-c11p", adsorbate=ads_name, temperature=T, **units)
    if case["seed"] % 3 == 1:
        # the isotherm has been read with a smoother interpolant before (a plot, a report): the integral is that of the
        # piecewise-linear interpolant whatever came first
        try:
            with numpy.errstate(all="ignore"):
                iso.loading_at(float((ps[0] + ps[-1]) / 2), interpolation_type=["cubic", "quadratic", "nearest"][case["seed"] % 9 // 3])
            ctx.count("point_histories", "read-with-another-interpolant-first")
        except Exception:
            ctx.count("point_histories", "other-interpolant-unavailable")
    from pgverif.core import _h
    dg = _h([ps, ls])
    k = r.randrange(n - 1)
    queries = [
        ("below-first", ps[0] * r.uniform(0.05, 0.95)),
        ("at-first", ps[0]),
        ("at-point", ps[r.randrange(n)]),
        ("inside", ps[k] + r.uniform(0.05, 0.95) * (ps[k + 1] - ps[k])),
        ("at-upper-edge", ps[-1]),
        ("inside-last", ps[-2] + 0.5 * (ps[-1] - ps[-2])),
    ]
    for label, q in queries:
        exp = _point_reference(ps, ls, q)
        got = _call(iso.spreading_pressure_at, q)
        ctx.case(["point", dg, label])
        ctx.count("point_queries", label)
        if got[0] != "ok":
            ctx.violation("PointIsotherm.spreading_pressure_at/raises/%s" % label, "spreading pressure raised inside the data range", exc=got[1], q=q, ps=ps[:4], n=n)
            continue
        if not close(_f(got[1]), exp, 1e-9, 1e-12):
            ctx.violation("PointIsotherm.spreading_pressure_at/integral/%s" % label, "differs from the closed-form integral of the piecewise-linear interpolant with Henry segment", q=q, got=got[1], expected=exp, ps=ps[:5], ls=ls[:5], n=n)
        # pressures in other units or modes are converted first
        rp = r.choice(RU.PRESSURE_REPR)
        try:
            f = RU.pressure_factor(rp[0], rp[1], units["pressure_mode"], units["pressure_unit"], fl, T)  # requested -> native
        except Exception:
            continue
        # stay strictly inside the range: the conversion there-and-back may move an edge point by 1 ulp
        if label in ("at-first", "at-point", "at-upper-edge"):
            continue
        got2 = _call(iso.spreading_pressure_at, q / f, pressure_mode=rp[0], pressure_unit=rp[1])
        ctx.case(["point", dg, label, "foreign", rp], nontrivial=(rp[0], rp[1]) != (units["pressure_mode"], units["pressure_unit"]))
        ctx.count("point_queries", "foreign-units")
        rt = max(RU.rtol_for(rp[1], units["pressure_unit"]) * 3, 1e-9)
        if got2[0] != "ok":
            ctx.violation("PointIsotherm.spreading_pressure_at/foreign-units/raises", "pressure in other units/mode raised", exc=got2[1], q=q / f, req=rp, native=[units["pressure_mode"], units["pressure_unit"]])
        else:
            slope_n = max(ls)
            if abs(_f(got2[1]) - exp) > rt * (abs(exp) + slope_n) + 1e-12:
                ctx.violation("PointIsotherm.spreading_pressure_at/foreign-units/value", "pressure in other units/mode is not converted first", got=got2[1], expected=exp, req=rp, native=[units["pressure_mode"], units["pressure_unit"]], label=label)
    # loading in other units scales the result
    got3 = _call(iso.spreading_pressure_at, queries[3][1], loading_unit="mol", loading_basis="molar")
    ctx.case(["point", dg, "loading-unit"])
    if got3[0] != "ok" or not close(_f(got3[1]), _point_reference(ps, ls, queries[3][1]) * 1e-3, 1e-9):
        ctx.violation("PointIsotherm.spreading_pressure_at/loading-unit", "loading unit argument not honoured", got=got3[1], expected=_point_reference(ps, ls, queries[3][1]) * 1e-3)
    # the desorption branch is an isotherm too (stored from high to low pressure): its integral is that of its own interpolant
    if two:
        pd_, ld_ = [ps[-1] * 0.5, ps[-1] * 0.8], [ls[-1] * 0.9, ls[-1] * 1.1]
        for qd in (pd_[0] * 0.6, (pd_[0] + pd_[1]) / 2, pd_[1]):
            gd = _call(iso.spreading_pressure_at, qd, branch="des")
            ctx.case(["point", dg, "des-branch", round(qd / pd_[1], 2)])
            ctx.count("point_queries", "desorption-branch")
            exp_d = _point_reference(pd_, ld_, qd)
            if gd[0] != "ok" or not close(_f(gd[1]), exp_d, 1e-9):
                ctx.violation("PointIsotherm.spreading_pressure_at/desorption-branch", "the spreading pressure of the desorption branch is not the integral of that branch's interpolant", q=qd, got=gd[1], expected=exp_d,
                              pressures=pd_, loadings=ld_)
                break
    # the record is converted to another loading unit after it was queried (its interpolators exist): the integral is that of the
    # record as it is now
    if case["seed"] % 2 == 0:
        hist = pygaps.PointIsotherm(pressure=pp, loading=ll, branch=[bool(b) for b in bb], material="verif-c11p", adsorbate=ads_name, temperature=T, **units)
        qh = queries[3][1]
        first = _call(hist.spreading_pressure_at, qh)
        conv = _call(hist.convert_loading, basis_to="molar", unit_to="mol")
        later = _call(hist.spreading_pressure_at, qh)
        ctx.case(["point", dg, "queried-then-converted"])
        ctx.count("point_histories", "queried-then-loading-unit-converted")
        if first[0] == "ok" and conv[0] == "ok":
            exp_h = _point_reference(ps, ls, qh) * 1e-3
            if later[0] != "ok" or not close(_f(later[1]), exp_h, 1e-9):
                ctx.violation("PointIsotherm.spreading_pressure_at/after-loading-unit-conversion", "after a permanent change of the loading unit the integral is not that of the converted record", got=later[1], expected=exp_h,
                              before_conversion=first[1])
    # above the range: refused unless a fill rule is given (then: plateau at the fill value)
    above = ps[-1] * 1.5
    fresh = pygaps.PointIsotherm(pressure=pp, loading=ll, branch=[bool(b) for b in bb], material="verif-c11p", adsorbate=ads_name, temperature=T, **units)
    g = _call(fresh.spreading_pressure_at, above)
    ctx.case(["point", dg, "above-no-fill"])
    ctx.count("point_queries", "above-range/" + ("refused" if g[0] != "ok" else "returned"))
    if g[0] == "ok":
        ctx.violation("PointIsotherm.spreading_pressure_at/above-range-not-refused", "a pressure above the data range was answered without a fill rule", q=above, got=g[1])
    fill = ls[-1]
    g = _call(fresh.spreading_pressure_at, above, interp_fill=fill)
    ctx.case(["point", dg, "above-fill"])
    s = (fill - ls[-1]) / (above - ps[-1])
    c = ls[-1] - s * ps[-1]
    exp = _point_reference(ps, ls, ps[-1]) + s * (above - ps[-1]) + c * math.log(above / ps[-1])
    ctx.count("tabulated_only", "above-range with fill: %s" % ("matches plateau integral" if g[0] == "ok" and close(_f(g[1]), exp, 1e-9) else "other (%s)" % g[0]))


def finalize(ctx):
    reasons = []
    ic = ctx.tables.get("integral_checked", {})
    for n in GM.HAS_SPREADING:
        if ic.get(n, 0) < 10:
            reasons.append("integral comparison judged fewer than 10 times for %s (%d)" % (n, ic.get(n, 0)))
    if sum(ctx.tables.get("point_queries", {}).values()) < 300:
        reasons.append("fewer than 300 point isotherm queries")
    if ctx.tables.get("modeliso", {}).get("spreading_pressure_at", 0) < 50:
        reasons.append("fewer than 50 model isotherm unit queries")
    for label, (hit, tot) in ctx.reach.items():
        if tot and not hit:
            reasons.append("anchored function %s never entered" % label)
    return reasons
