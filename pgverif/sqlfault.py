"""Failpoints for the SQLite store: a proxy bound to the name ``sqlite3`` inside
pygaps.parsing.sqlite.  Its connect() returns Connection/Cursor subclasses that number every
statement and the commit of the current public call and can raise an error *instead of*
statement k, or kill the process before / after statement k or around the commit.
"""

import os
import sqlite3 as _real

from pgverif import probes

EXIT_CODE = 77


class Plan:
    """What to inject during the next public call (one shared instance)."""
    def __init__(self):
        self.reset()

    def reset(self, kind=None, at=None):
        self.kind = kind  # None | 'IntegrityError' | 'InterfaceError' | 'OperationalError' | 'exit_before' | 'exit_after' | 'exit_before_commit' | 'exit_after_commit'
        self.at = at  # statement number (1-based) for the statement kinds
        self.step = 0
        self.trace = []  # [(n, first words of the statement)]
        self.commits = 0
        self.fired = False


PLAN = Plan()


def _die():
    os._exit(EXIT_CODE)


class FaultCursor(_real.Cursor):
    def execute(self, sql, *args):
        PLAN.step += 1
        n = PLAN.step
        PLAN.trace.append((n, " ".join(str(sql).split())[:60]))
        if PLAN.kind and PLAN.at == n and not PLAN.fired:
            if PLAN.kind in ("IntegrityError", "InterfaceError", "OperationalError"):
                PLAN.fired = True
                raise getattr(_real, PLAN.kind)("injected %s instead of statement %d" % (PLAN.kind, n))
            if PLAN.kind == "exit_before":
                _die()
            if PLAN.kind == "exit_after":
                res = super().execute(sql, *args)
                _die()
                return res
        return super().execute(sql, *args)


class FaultConnection(_real.Connection):
    def cursor(self, factory=FaultCursor):
        return super().cursor(factory)

    def commit(self):
        PLAN.commits += 1
        PLAN.trace.append(("commit", ""))
        if PLAN.kind == "exit_before_commit":
            _die()
        res = super().commit()
        if PLAN.kind == "exit_after_commit":
            _die()
        return res


class SqliteProxy:
    """Stands in for the sqlite3 module inside pygaps.parsing.sqlite."""
    def __getattr__(self, name):
        return getattr(_real, name)

    @staticmethod
    def connect(*args, **kwargs):
        kwargs.setdefault("factory", FaultConnection)
        return _real.connect(*args, **kwargs)


_INSTALLED = None


def install():
    """Bind the proxy to pygaps.parsing.sqlite.sqlite3 (guarded like every other probe)."""
    global _INSTALLED
    if not probes.guard_on():
        raise RuntimeError("instrumentation refused: PYGAPS_VERIF is not 1")
    import pygaps.parsing.sqlite as S
    if _INSTALLED is None:
        _INSTALLED = S.sqlite3
        S.sqlite3 = SqliteProxy()
    return S


def uninstall():
    global _INSTALLED
    if _INSTALLED is not None:
        import pygaps.parsing.sqlite as S
        S.sqlite3 = _INSTALLED
        _INSTALLED = None
