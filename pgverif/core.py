"""Shared monitor state: what a worker observed while running cases of one check.

A ``Ctx`` is the only channel between a check's ``run_case`` and the runner.  It is
JSON-serialisable (``dump``) and mergeable (``merge``) so that shards running in separate
processes can be combined.  Nothing in here decides a verdict; it only records.
"""

import hashlib
import json
import math
import os
import traceback

MAX_SAMPLES = 6
MAX_WITNESS_PER_KEY = 2


def _h(obj) -> str:
    """Stable short hash of any JSON-able object (used for distinct counting)."""
    s = json.dumps(obj, sort_keys=True, default=repr)
    return hashlib.blake2b(s.encode(), digest_size=8).hexdigest()


def jsonable(o, depth=0):
    """Best-effort conversion of numpy / pandas / arbitrary values to JSON-able ones."""
    import numpy
    if depth > 6:
        return repr(o)[:200]
    if o is None or isinstance(o, (bool, str, int)):
        return o
    if isinstance(o, float):
        if math.isnan(o) or math.isinf(o):
            return repr(o)
        return o
    if isinstance(o, (numpy.integer, )):
        return int(o)
    if isinstance(o, (numpy.floating, )):
        return jsonable(float(o))
    if isinstance(o, (numpy.bool_, )):
        return bool(o)
    if isinstance(o, numpy.ndarray):
        if o.size > 40:
            return {
                "ndarray_shape": list(o.shape),
                "head": jsonable(o.ravel()[:10].tolist(), depth + 1),
                "tail": jsonable(o.ravel()[-5:].tolist(), depth + 1)
            }
        return jsonable(o.tolist(), depth + 1)
    if isinstance(o, dict):
        return {str(k): jsonable(v, depth + 1) for k, v in list(o.items())[:60]}
    if isinstance(o, (list, tuple, set, frozenset)):
        o = list(o)
        if len(o) > 60:
            return [jsonable(v, depth + 1) for v in o[:40]] + ["...(%d more)" % (len(o) - 40)]
        return [jsonable(v, depth + 1) for v in o]
    try:
        import pandas
        if isinstance(o, pandas.Series):
            return jsonable(o.values, depth + 1)
        if isinstance(o, pandas.DataFrame):
            return {c: jsonable(o[c].values, depth + 1) for c in o.columns}
    except Exception:  # pragma: no cover
        pass
    if isinstance(o, BaseException):
        return "%s: %s" % (type(o).__name__, str(o)[:300])
    return repr(o)[:300]


class Ctx:
    """Observation record of one worker (or the merge of several)."""
    def __init__(self, prop, tier="quick", seed=0):
        self.prop = prop
        self.tier = tier
        self.seed = seed
        self.evaluations = 0  # monitored executions (oracle comparisons attempted)
        self.trivial = 0
        self.distinct = set()  # hashes of distinct non-trivial canonical cases
        self.tables = {}  # name -> {label -> count}
        self.hooks = {}  # hook name -> evaluations
        self.samples = []
        self.violations = {}  # key -> {"count": n, "what": str, "witnesses": [..]}
        self.errors = []  # harness problems (never verdicts): -> inconclusive
        self.reach = {}  # qualname -> [hit_lines, total_lines]
        self.extra = {}
        self.current_case = None

    # ----------------------------------------------------------------- recording
    def case(self, key, nontrivial=True, n=1):
        """Register ``n`` monitored executions belonging to canonical case ``key``."""
        self.evaluations += n
        if nontrivial:
            self.distinct.add(_h(key))
        else:
            self.trivial += n

    def count(self, table, label, n=1):
        t = self.tables.setdefault(table, {})
        label = str(label)
        t[label] = t.get(label, 0) + n

    def hook(self, name, n=1):
        self.hooks[name] = self.hooks.get(name, 0) + n

    def sample(self, obj, force=False):
        if force or len(self.samples) < MAX_SAMPLES:
            self.samples.append(jsonable(obj))

    def violation(self, key, what, **witness):
        """Record a violation of the property.

        ``key`` names the *mechanism* (call site + input class), never random values:
        it is what known_findings.json is matched against.
        """
        v = self.violations.setdefault(key, {"count": 0, "what": what, "witnesses": []})
        v["count"] += 1
        if len(v["witnesses"]) < MAX_WITNESS_PER_KEY:
            w = {"case": jsonable(self.current_case)}
            w.update({k: jsonable(x) for k, x in witness.items()})
            v["witnesses"].append(w)

    def error(self, where, exc=None):
        """A problem of the harness itself (not a verdict on the code)."""
        msg = where
        if exc is not None:
            msg += ": " + "".join(traceback.format_exception_only(type(exc), exc)).strip()[:400]
        if len(self.errors) < 20:
            self.errors.append(msg)
        self.count("harness_errors", where.split(":")[0])

    # ----------------------------------------------------------------- transport
    def dump(self):
        return {
            "prop": self.prop,
            "evaluations": self.evaluations,
            "trivial": self.trivial,
            "distinct": sorted(self.distinct),
            "tables": self.tables,
            "hooks": self.hooks,
            "samples": self.samples,
            "violations": self.violations,
            "errors": self.errors,
            "reach": self.reach,
            "extra": self.extra,
        }

    def merge(self, d):
        self.evaluations += d["evaluations"]
        self.trivial += d["trivial"]
        self.distinct.update(d["distinct"])
        for t, rows in d["tables"].items():
            for k, n in rows.items():
                self.count(t, k, n)
        for k, n in d["hooks"].items():
            self.hook(k, n)
        for s in d["samples"]:
            if len(self.samples) < MAX_SAMPLES:
                self.samples.append(s)
        for k, v in d["violations"].items():
            mine = self.violations.setdefault(k, {"count": 0, "what": v["what"], "witnesses": []})
            mine["count"] += v["count"]
            for w in v["witnesses"]:
                if len(mine["witnesses"]) < MAX_WITNESS_PER_KEY:
                    mine["witnesses"].append(w)
        self.errors.extend(d["errors"][:20 - len(self.errors)] if len(self.errors) < 20 else [])
        for q, (hit, tot) in d["reach"].items():
            cur = self.reach.get(q)
            if cur is None:
                self.reach[q] = [hit, tot]
            else:
                # lines are reported as lists so that the union over shards is exact
                self.reach[q] = [sorted(set(cur[0]) | set(hit)), tot]
        for k, v in d["extra"].items():
            if isinstance(v, list):
                self.extra.setdefault(k, [])
                for x in v:
                    if x not in self.extra[k]:
                        self.extra[k].append(x)
            elif isinstance(v, (int, float)) and not isinstance(v, bool):
                self.extra[k] = self.extra.get(k, 0) + v
            else:
                self.extra[k] = v


def rel_err(a, b):
    """Symmetric relative error that treats exact equality (incl. 0 == 0) as 0."""
    a = float(a)
    b = float(b)
    if a == b:
        return 0.0
    if math.isnan(a) or math.isnan(b) or math.isinf(a) or math.isinf(b):
        return math.inf
    return abs(a - b) / max(abs(a), abs(b))


def close(a, b, rtol, atol=0.0):
    a = float(a)
    b = float(b)
    if a == b:
        return True
    if math.isnan(a) or math.isnan(b):
        return False
    return abs(a - b) <= atol + rtol * max(abs(a), abs(b))


def allclose(a, b, rtol, atol=0.0):
    import numpy
    a = numpy.asarray(a, dtype=float)
    b = numpy.asarray(b, dtype=float)
    if a.shape != b.shape:
        return False
    if a.size == 0:
        return True
    with numpy.errstate(all="ignore"):
        ok = (a == b) | (numpy.abs(a - b) <= atol + rtol * numpy.maximum(numpy.abs(a), numpy.abs(b)))
    return bool(numpy.all(ok))


def max_rel(a, b):
    import numpy
    a = numpy.asarray(a, dtype=float).ravel()
    b = numpy.asarray(b, dtype=float).ravel()
    if a.shape != b.shape:
        return math.inf
    if a.size == 0:
        return 0.0
    return max(rel_err(x, y) for x, y in zip(a, b))


def repo_root():
    return os.environ.get("PYGAPS_REPO", "/repo")
