"""Independent reference for units, modes and bases (written from SI definitions).

Nothing in this module imports pyGAPS.  Fluid properties come from CoolProp's *high
level* ``PropsSI`` interface (pyGAPS uses the low-level ``AbstractState``), so a wrong
input pair, phase or unit scaling on the pyGAPS side is visible as a disagreement.
"""

import functools

# ------------------------------------------------------------------ SI definitions
PA = {  # pascal per unit
    "Pa": 1.0,
    "kPa": 1e3,
    "MPa": 1e6,
    "mbar": 1e2,
    "bar": 1e5,
    "atm": 101325.0,
    "mmHg": 133.322387415,
    "torr": 101325.0 / 760.0,
}
# molar volume of an ideal gas at 273.15 K and 101325 Pa: 22413.969 cm3/mol
_VM_STP = 8.314462618 * 273.15 / 101325.0 * 1e6
MOL = {  # mol per unit
    "mmol": 1e-3,
    "mol": 1.0,
    "kmol": 1e3,
    "cm3(STP)": 1.0 / _VM_STP,
    "mL(STP)": 1.0 / _VM_STP,
    "cc(STP)": 1.0 / _VM_STP,
    "L(STP)": 1e3 / _VM_STP,
}
GRAM = {  # gram per unit
    "amu": 1.66053906660e-24,
    "mg": 1e-3,
    "cg": 1e-2,
    "dg": 1e-1,
    "g": 1.0,
    "kg": 1e3,
}
CM3 = {  # cm3 per unit
    "cm3": 1.0,
    "mL": 1.0,
    "cc": 1.0,
    "dm3": 1e3,
    "L": 1e3,
    "m3": 1e6,
}

PRESSURE_REPR = [("absolute", u) for u in PA] + [("relative", None), ("relative%", None)]
LOADING_REPR = ([("molar", u) for u in MOL] + [("mass", u) for u in GRAM] + [("volume_gas", u) for u in CM3] +
                [("volume_liquid", u) for u in CM3] + [("fraction", None), ("percent", None)])
MATERIAL_REPR = ([("mass", u) for u in GRAM] + [("volume", u) for u in CM3] + [("molar", u) for u in MOL])
TEMPERATURE_REPR = ["K", "°C"]

assert len(PRESSURE_REPR) == 10 and len(LOADING_REPR) == 27 and len(MATERIAL_REPR) == 19

LOADING_TABLE = {"molar": MOL, "mass": GRAM, "volume_gas": CM3, "volume_liquid": CM3}
MATERIAL_TABLE = {"mass": GRAM, "volume": CM3, "molar": MOL}

# Units that pyGAPS stores as rounded constants (cm3(STP)=4.461e-5 mol, torr=mmHg=133.322 Pa):
# comparisons involving them are made at ROUNDED_RTOL, everything else at EXACT_RTOL.
ROUNDED_UNITS = {"cm3(STP)", "mL(STP)", "cc(STP)", "L(STP)", "mmHg", "torr", "amu"}
ROUNDED_RTOL = 3e-4
EXACT_RTOL = 1e-9


def rtol_for(*units):
    return ROUNDED_RTOL if any(u in ROUNDED_UNITS for u in units) else EXACT_RTOL


# ------------------------------------------------------------------ fluid properties


class Fluid:
    """Saturation properties of a CoolProp fluid through PropsSI (cached per T)."""
    def __init__(self, backend_name):
        self.name = backend_name

    @functools.lru_cache(maxsize=4096)
    def _p(self, out, T, Q):
        from CoolProp.CoolProp import PropsSI
        return PropsSI(out, "T", float(T), "Q", Q, self.name)

    def p_sat(self, T):  # Pa
        return self._p("P", T, 0)

    def rho_liq_molar(self, T):  # mol/cm3
        return self._p("Dmolar", T, 0) / 1e6

    def rho_gas_molar(self, T):  # mol/cm3
        return self._p("Dmolar", T, 1) / 1e6

    def rho_liq(self, T):  # g/cm3
        return self._p("Dmass", T, 0) / 1e3

    def rho_gas(self, T):  # g/cm3
        return self._p("Dmass", T, 1) / 1e3

    def h_vap(self, T):  # kJ/mol
        return (self._p("Hmolar", T, 1) - self._p("Hmolar", T, 0)) / 1e3

    @functools.lru_cache(maxsize=None)
    def molar_mass(self):  # g/mol
        from CoolProp.CoolProp import PropsSI
        return PropsSI("M", self.name) * 1e3

    @functools.lru_cache(maxsize=None)
    def t_triple(self):
        from CoolProp.CoolProp import PropsSI
        return PropsSI("Ttriple", self.name)

    @functools.lru_cache(maxsize=None)
    def t_crit(self):
        from CoolProp.CoolProp import PropsSI
        return PropsSI("Tcrit", self.name)

    @functools.lru_cache(maxsize=None)
    def p_crit(self):
        from CoolProp.CoolProp import PropsSI
        return PropsSI("pcrit", self.name)

    @functools.lru_cache(maxsize=None)
    def p_triple(self):
        from CoolProp.CoolProp import PropsSI
        return PropsSI("ptriple", self.name)


_FLUIDS = {}


class UserFluid:
    """A fluid known only through user-supplied constants (documented units: Pa, g/cm3, g/mol), independent of temperature."""
    def __init__(self, molar_mass, saturation_pressure, liquid_density, gas_density):
        self._M, self._ps, self._rl, self._rg = molar_mass, saturation_pressure, liquid_density, gas_density

    def p_sat(self, T):
        return self._ps

    def rho_liq(self, T):
        return self._rl

    def rho_gas(self, T):
        return self._rg

    def rho_liq_molar(self, T):
        return self._rl / self._M

    def rho_gas_molar(self, T):
        return self._rg / self._M

    def molar_mass(self):
        return self._M


def fluid(backend_name):
    f = _FLUIDS.get(backend_name)
    if f is None:
        f = _FLUIDS[backend_name] = Fluid(backend_name)
    return f


# ------------------------------------------------------------------ reference conversions


class RefError(Exception):
    """The reference cannot convert (representation undefined for these inputs)."""


def pressure_factor(mode_from, unit_from, mode_to, unit_to, fl=None, T=None):
    """Multiplicative factor value_to = value_from * factor."""
    def to_pa(mode, unit):
        if mode == "absolute":
            return PA[unit]
        p0 = fl.p_sat(T)
        return p0 if mode == "relative" else p0 / 100.0

    if mode_from != "absolute" and mode_to != "absolute":
        a = 1.0 if mode_from == "relative" else 0.01
        b = 1.0 if mode_to == "relative" else 0.01
        return a / b
    if mode_from == "absolute" and mode_to == "absolute":
        return PA[unit_from] / PA[unit_to]
    return to_pa(mode_from, unit_from) / to_pa(mode_to, unit_to)


def _mol_per(basis, unit, fl, T):
    """mol of adsorbate represented by 1 <unit> in <basis>."""
    if basis == "molar":
        return MOL[unit]
    if basis == "mass":
        return GRAM[unit] / fl.molar_mass()
    if basis == "volume_gas":
        return CM3[unit] * fl.rho_gas_molar(T)
    if basis == "volume_liquid":
        return CM3[unit] * fl.rho_liq_molar(T)
    raise RefError(basis)


def loading_factor(basis_from, unit_from, basis_to, unit_to, fl=None, T=None, basis_material=None, unit_material=None):
    """Factor for the *numerator* conversion done by c_loading.

    fraction/percent mean: amount of adsorbate expressed in the material's own basis and
    unit (mass->mass, volume->liquid volume, molar->molar) per one material unit.
    """
    def resolve(basis, unit):
        scale = 1.0
        if basis in ("fraction", "percent"):
            scale = 1.0 if basis == "fraction" else 0.01
            basis = {"mass": "mass", "volume": "volume_liquid", "molar": "molar"}[basis_material]
            unit = unit_material
        return basis, unit, scale

    if basis_from in ("fraction", "percent") and basis_to in ("fraction", "percent"):
        a = 1.0 if basis_from == "fraction" else 0.01
        b = 1.0 if basis_to == "fraction" else 0.01
        return a / b
    bf, uf, sf = resolve(basis_from, unit_from)
    bt, ut, st = resolve(basis_to, unit_to)
    if bf == bt:
        return sf * LOADING_TABLE[bf][uf] / LOADING_TABLE[bt][ut] / st
    return sf * _mol_per(bf, uf, fl, T) / _mol_per(bt, ut, fl, T) / st


def _gram_per(basis, unit, density, molar_mass):
    """g of material in 1 <unit> of <basis>."""
    if basis == "mass":
        return GRAM[unit]
    if basis == "volume":
        return CM3[unit] * density
    if basis == "molar":
        return MOL[unit] * molar_mass
    raise RefError(basis)


def material_factor(basis_from, unit_from, basis_to, unit_to, density=None, molar_mass=None):
    """Factor for a quantity expressed *per* material unit (denominator conversion)."""
    if basis_from == basis_to:
        return MATERIAL_TABLE[basis_to][unit_to] / MATERIAL_TABLE[basis_from][unit_from]
    return _gram_per(basis_to, unit_to, density, molar_mass) / _gram_per(basis_from, unit_from, density, molar_mass)


def full_loading_factor(lf, mf, lt, mt, fl, T, density, molar_mass):
    """Factor between two complete loading representations (loading repr, material repr).

    lf/lt = (loading_basis, loading_unit); mf/mt = (material_basis, material_unit).
    Works through mol adsorbate per g material.
    """
    def mol_per_g(lrep, mrep):
        lb, lu = lrep
        mb, mu = mrep
        scale = 1.0
        if lb in ("fraction", "percent"):
            scale = 1.0 if lb == "fraction" else 0.01
            lb = {"mass": "mass", "volume": "volume_liquid", "molar": "molar"}[mb]
            lu = mu
        return scale * _mol_per(lb, lu, fl, T) / _gram_per(mb, mu, density, molar_mass)

    return mol_per_g(lf, mf) / mol_per_g(lt, mt)


def temperature(value, unit_from, unit_to):
    k = value if unit_from == "K" else value + 273.15
    return k if unit_to == "K" else k - 273.15
