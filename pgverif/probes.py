"""Instrumentation installed from the harness on the *real* pyGAPS functions.

Nothing here edits /repo.  ``wrap`` replaces an attribute of a module/class by a
recording wrapper and restores it afterwards; ``Reach`` arms ``sys.monitoring`` LINE
events (DISABLE after first hit, so the steady-state cost is nil) on the code objects of
the functions a property is anchored in, so that a check can report — and refuse to
conclude without — evidence that the anchored code actually ran.
"""

import functools
import os
import sys
import types

_GUARD = "PYGAPS_VERIF"


def guard_on():
    return os.environ.get(_GUARD) == "1"


class Wrapped:
    """Handle returned by wrap(); use .restore()."""
    def __init__(self, owner, name, original):
        self.owner, self.name, self.original = owner, name, original
        self.calls = 0
        self.raises = 0

    def restore(self):
        setattr(self.owner, self.name, self.original)


def wrap(owner, name, before=None, after=None, on_raise=None):
    """Replace ``owner.name`` by a recording wrapper.

    before(args, kwargs) -> token ; after(token, args, kwargs, result) ;
    on_raise(token, args, kwargs, exc).  Callbacks must not raise; the original outcome
    (value or exception) is always passed through unchanged.
    """
    if not guard_on():
        raise RuntimeError("instrumentation refused: %s is not set to 1" % _GUARD)
    raw = owner.__dict__[name] if isinstance(owner, type) else getattr(owner, name)
    is_static = isinstance(raw, staticmethod)
    is_class = isinstance(raw, classmethod)
    fn = raw.__func__ if (is_static or is_class) else raw
    handle = Wrapped(owner, name, raw)

    @functools.wraps(fn)
    def wrapper(*args, **kwargs):
        handle.calls += 1
        token = before(args, kwargs) if before else None
        try:
            result = fn(*args, **kwargs)
        except BaseException as exc:
            handle.raises += 1
            if on_raise:
                on_raise(token, args, kwargs, exc)
            raise
        if after:
            after(token, args, kwargs, result)
        return result

    new = staticmethod(wrapper) if is_static else classmethod(wrapper) if is_class else wrapper
    setattr(owner, name, new)
    return handle


# ---------------------------------------------------------------------------- reach


def _code_objects(fn):
    """The code object of ``fn`` plus all nested ones (closures, lambdas, comprehensions)."""
    fn = getattr(fn, "__func__", fn)
    fn = getattr(fn, "fget", fn)  # property
    fn = getattr(fn, "__wrapped__", fn)
    code = getattr(fn, "__code__", None)
    if code is None:
        return []
    out, stack = [], [code]
    while stack:
        c = stack.pop()
        out.append(c)
        for k in c.co_consts:
            if isinstance(k, types.CodeType):
                stack.append(k)
    return out


class Reach:
    """Line-reach monitor over a set of functions (sys.monitoring, Python >= 3.12)."""
    def __init__(self, functions):
        # functions: iterable of (label, function)
        self.targets = {}
        for label, fn in functions:
            for code in _code_objects(fn):
                lines = {ln for (_, _, ln) in code.co_lines() if ln is not None}
                lines.discard(code.co_firstlineno)
                self.targets[code] = (label, lines)
        self.hit = {code: set() for code in self.targets}
        self.tool = None

    def start(self):
        mon = getattr(sys, "monitoring", None)
        if mon is None or not self.targets:
            return self
        for tool in (mon.PROFILER_ID, mon.COVERAGE_ID, 4, 3):
            try:
                mon.use_tool_id(tool, "pgverif-reach")
                self.tool = tool
                break
            except ValueError:
                continue
        if self.tool is None:
            return self

        def on_line(code, line):
            h = self.hit.get(code)
            if h is not None:
                h.add(line)
            return mon.DISABLE

        mon.register_callback(self.tool, mon.events.LINE, on_line)
        for code in self.targets:
            mon.set_local_events(self.tool, code, mon.events.LINE)
        return self

    def stop(self):
        mon = getattr(sys, "monitoring", None)
        if mon is None or self.tool is None:
            return
        for code in self.targets:
            try:
                mon.set_local_events(self.tool, code, 0)
            except Exception:
                pass
        mon.register_callback(self.tool, mon.events.LINE, None)
        mon.free_tool_id(self.tool)
        self.tool = None

    def report(self):
        """label -> [sorted hit lines, total lines]"""
        agg = {}
        for code, (label, lines) in self.targets.items():
            cur = agg.setdefault(label, [set(), set()])
            cur[0] |= (self.hit[code] & lines) if lines else self.hit[code]
            cur[1] |= lines
        return {k: [sorted(v[0]), len(v[1])] for k, v in agg.items()}
