#!/bin/bash
# usage: tools/confirm_mutant.sh <Cxx> <k>   (reads /tmp/wt/<Cxx>/MUTANTS/<k>/)
# Confirms in the scratch worktree /tmp/wt/<Cxx> (reset to /repo HEAD): demo passes on original, fails with the patch,
# and the repository's baseline tests still pass with the patch. On success copies the mutant
# to /verif/seeded/<Cxx>-<k>/ with a meta.json stub. The scratch worktree is removed afterwards.
id="$1"; k="$2"
src=/tmp/wt/$id/MUTANTS/$k
# the agent's own scratch worktree is re-used (demos may assert their location); it is brought to /repo HEAD
wt=/tmp/wt/$id
[ -f "$src/patch.diff" ] || { echo "no patch at $src"; exit 2; }
git -C "$wt" checkout -q -- src tests 2>/dev/null
git -C "$wt" checkout -q --detach "$(git -C /repo rev-parse HEAD)" || exit 2
cp /repo/src/pygaps/_version.py "$wt/src/pygaps/_version.py"
cleanup() { git -C "$wt" checkout -q -- src tests 2>/dev/null; }
trap cleanup EXIT
cp "$src/demo.py" "$wt/demo.py"
run_demo() { (cd "$wt" && env -u PYGAPS_VERIF PYTHONPATH="$wt/src" timeout 600 /venv/bin/python demo.py >"$wt/demo.out" 2>&1; echo $?); }
rc0=$(run_demo)
if ! git -C "$wt" apply --check "$src/patch.diff" 2>/dev/null; then echo "$id-$k: PATCH DOES NOT APPLY to current HEAD"; exit 1; fi
git -C "$wt" apply "$src/patch.diff"
rc1=$(run_demo)
demo_tail=$(tail -3 "$wt/demo.out" | tr '\n' ' ' | cut -c1-300)
base=$(/verif/tools/baseline.py "$wt" -n 0 2>&1 | tail -1)
echo "$id-$k: demo_original_rc=$rc0 demo_mutant_rc=$rc1 baseline: $base"
if [ "$rc0" = "0" ] && [ "$rc1" != "0" ] && echo "$base" | grep -q "missing=0"; then
  dst=/verif/seeded/$id-$k
  mkdir -p "$dst"
  cp "$src/patch.diff" "$src/demo.py" "$dst/"
  [ -f "$src/notes.md" ] && cp "$src/notes.md" "$dst/notes.md"
  python3 - "$dst" "$id" "$rc0" "$rc1" "$base" "$demo_tail" <<'PY'
import json, sys, os
dst, pid, rc0, rc1, base, tail = sys.argv[1:7]
notes = open(os.path.join(dst, "notes.md")).read() if os.path.exists(os.path.join(dst, "notes.md")) else ""
meta = {"property": pid, "needs_to_manifest": notes.strip(), "confirmed": {
    "how": "tools/confirm_mutant.sh in the scratch worktree /tmp/wt/<id> reset to /repo HEAD (worktree removed after the session)",
    "repo_head": os.popen("git -C /repo log --format=%h -1").read().strip(),
    "demo_rc_on_original": int(rc0), "demo_rc_with_change": int(rc1), "baseline_with_change": base, "demo_output_with_change": tail},
    "caught_by": "(filled in by tools/run_seeded.sh)"}
json.dump(meta, open(os.path.join(dst, "meta.json"), "w"), indent=1)
PY
  echo "$id-$k: CONFIRMED -> $dst"
else
  echo "$id-$k: NOT CONFIRMED"; exit 1
fi
