#!/venv/bin/python
"""Run the repository's own baseline test command (guard OFF) and compare with BASELINE.json.

usage: tools/baseline.py [repo_dir] [-n N]
Exit 0 iff every test in BASELINE.stable_pass still passes.
"""
import json
import os
import subprocess
import sys
import tempfile
import xml.etree.ElementTree as ET

repo = "/repo"
n = "12"
args = sys.argv[1:]
while args:
    a = args.pop(0)
    if a == "-n":
        n = args.pop(0)
    else:
        repo = a
base = json.load(open("/root/.vp/BASELINE.json"))
want = set(base["stable_pass"])
fd, xml = tempfile.mkstemp(suffix=".xml")
os.close(fd)
env = dict(os.environ)
env.pop("PYGAPS_VERIF", None)
env["PYTHONPATH"] = os.path.join(repo, "src")
cmd = ["/venv/bin/python", "-m", "pytest", "-q", "-p", "no:cacheprovider", "--timeout=900",
       "--continue-on-collection-errors", "--junitxml=" + xml]
if n != "0":
    cmd += ["-n", n]
r = subprocess.run(cmd, cwd=repo, env=env, capture_output=True, text=True)
passed = set()
for tc in ET.parse(xml).getroot().iter("testcase"):
    if not any(c.tag in ("failure", "error", "skipped") for c in tc):
        passed.add("%s::%s" % (tc.get("classname"), tc.get("name")))
os.unlink(xml)
missing = sorted(want - passed)
print(r.stdout.strip().splitlines()[-1] if r.stdout.strip() else r.stderr[-500:])
print("baseline stable_pass=%d still passing=%d missing=%d" % (len(want), len(want & passed), len(missing)))
for m in missing[:40]:
    print("  MISSING", m)
sys.exit(1 if missing else 0)
