#!/venv/bin/python
"""Regenerate /verif/MANIFEST.json from the check modules that exist (and validate it)."""
import importlib
import json
import os
import sys

HERE = os.path.dirname(os.path.dirname(os.path.abspath(__file__)))
sys.path.insert(0, HERE)
os.environ.setdefault("PYGAPS_VERIF", "1")

PROPS = [json.loads(l) for l in open(os.path.join(HERE, "properties.jsonl")) if l.strip()]

# technique / level text per property (kept here so that the manifest is one generated artefact)
TECH = {
    "C01": ("postcondition monitor on c_* return values vs independent SI/PropsSI reference; exhaustive pair/triple sweep",
            "3.C01"),
    "C02": ("reference state machine over recorded conversion histories on real PointIsotherm objects", "3.C02"),
    "C03": ("postcondition monitor on accessors vs permanent conversion of a reconstructed copy", "3.C03"),
    "C04": ("state fingerprint before/after every read-only call + fresh-object twin for history independence", "3.C04"),
    "C05": ("paired-construction monitor on iso_id / == (equal content vs minimally different content, child processes)",
            "3.C05"),
    "C06": ("round-trip postcondition monitor on JSON export/import", "3.C06"),
    "C07": ("round-trip postcondition monitor on CSV / Excel / AIF export/import", "3.C07"),
    "C08": ("history recording at the client boundary checked against a dictionary model and an independent table dump",
            "3.C08"),
    "C09": ("failpoint enumeration through a sqlite3 proxy (every statement position x fault kind, incl. process death)",
            "3.C09"),
    "C10": ("postcondition monitor on model.loading/pressure: inverse laws, shape facts, scalar/array agreement", "3.C10"),
    "C11": ("postcondition monitor on spreading pressure vs independent quadrature / closed-form piecewise integral",
            "3.C11"),
    "C12": ("recording hook on model fit + postconditions (rmse identity, best-of-list, bounds, branch, covariance)",
            "3.C12"),
    "C13": ("postcondition monitor on IAST results: residuals of the IAST equations, closed forms, permutation, inverse",
            "3.C13"),
    "C14": ("postcondition monitor on linearised characterisation methods vs generating parameters", "3.C14"),
    "C15": ("metamorphic twin monitor: converted / scaled / re-imported copy must give the same characterisation result",
            "3.C15"),
    "C16": ("postcondition monitor on mesopore PSD outputs: Kelvin formula and conservation identities", "3.C16"),
    "C17": ("hook on _solve_hk* capturing the potential closure + residual / published slit HK equation oracle", "3.C17"),
    "C18": ("hook on bspline capturing raw SLSQP weights + postconditions on kernel fit results", "3.C18"),
    "C19": ("postcondition monitor on enthalpy methods vs enthalpy built into synthetic van 't Hoff data", "3.C19"),
    "C20": ("exhaustive registry sweep (names x aliases x case variants) + thermodynamic consistency monitor vs PropsSI",
            "3.C20"),
}

NOT_APPLICABLE = {}


def main():
    checks, missing = [], []
    for p in PROPS:
        pid = p["id"]
        path = os.path.join(HERE, "pgverif", "checks", pid.lower() + ".py")
        if not os.path.exists(path):
            missing.append(pid)
            continue
        mod = importlib.import_module("pgverif.checks." + pid.lower())
        tech, ref = TECH[pid]
        level = getattr(mod, "LEVEL", "exploration")
        checks.append({
            "property_id": pid,
            "quick_cmd": "./check %s quick" % pid,
            "thorough_cmd": "./check %s thorough" % pid,
            "evidence_file": "/verif/evidence/%s.json" % pid,
            "replay_cmd_template": "./check %s --replay {path}" % pid,
            "engine": "pgverif",
            "level_claimed": {
                "category": level,
                "text": getattr(mod, "LEVEL_TEXT", None) or
                ("Runtime monitoring: the real pyGAPS code is executed on generated, boundary and hostile workloads while "
                 "an independent oracle decides every observed call. The verdict is 'held on the executions observed' "
                 "(counts, tables and samples in the evidence file), not a proof of the universal quantifier."),
                "design_ref": "DESIGN.md section " + ref,
            },
            "level_note": "; ".join(getattr(mod, "ASSUMPTIONS", [])) or "oracle independent of the code under test",
            "technique": tech,
        })
    na = [{"property_id": pid, "reason": NOT_APPLICABLE.get(pid, "check not built yet in this session (planned, see DESIGN.md section 3)")}
          for pid in missing]
    manifest = {
        "version": 1,
        "setup_cmd": "./tools/setup.sh",
        "hooks": {
            "guard": "PYGAPS_VERIF",
            "enable": "PYGAPS_VERIF=1 in the environment of ./check (set by the script); all instrumentation is installed "
            "from the harness by wrapping the real functions at run time, no source hooks exist in /repo",
            "baseline_off_cmd": "cd /repo && env -u PYGAPS_VERIF /venv/bin/python -m pytest -ra -q -p no:cacheprovider "
            "--timeout=900 --continue-on-collection-errors",
            "source_commits": [],
            "add_only": True,
        },
        "engines": [{
            "name": "pgverif",
            "path": "/verif/pgverif",
            "serves_properties": [c["property_id"] for c in checks],
            "kind_free_text": "runtime monitors (postconditions, reference-model history checkers, failpoint enumeration) "
            "written in Python, run against /repo's working tree with /venv/bin/python",
        }],
        "checks": checks,
        "not_applicable": na,
        "notes": "All checks: exit 0 held / 1 VIOLATION / 2 INCONCLUSIVE. Known findings: /verif/known_findings.json "
        "(matched by mechanism key). Honour VERIF_SEED.",
    }
    out = os.path.join(HERE, "MANIFEST.json")
    with open(out, "w") as fh:
        json.dump(manifest, fh, indent=1)
    try:
        sys.path.insert(0, "/opt/veriftools/pyvenv/lib/python3.11/site-packages")
        import jsonschema
        jsonschema.validate(manifest, json.load(open("/root/.vp/MANIFEST.schema.json")))
        print("MANIFEST.json valid; checks=%d not_applicable=%d" % (len(checks), len(na)))
    except ImportError:
        print("MANIFEST.json written (jsonschema not importable here; validate with python3-vt)")


if __name__ == "__main__":
    main()
