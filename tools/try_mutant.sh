#!/bin/bash
# usage: tools/try_mutant.sh <patch.diff> <tier> <Cxx> [Cyy ...]
# Applies a seeded change to /repo, runs the named checks, and ALWAYS reverts /repo.
patch="$(realpath "$1")"; tier="$2"; shift 2
cd /verif
if ! git -C /repo diff --quiet; then echo "refusing: /repo has uncommitted changes"; exit 3; fi
if ! git -C /repo apply --check "$patch" 2>/dev/null; then echo "PATCH DOES NOT APPLY: $patch"; exit 4; fi
git -C /repo apply "$patch"
trap 'git -C /repo checkout -- . ; ' EXIT
for id in "$@"; do
  out=$(./check "$id" "$tier" 2>&1); rc=$?
  echo "== $id $tier rc=$rc"; echo "$out" | grep -E "^(VIOLATION|INCONCLUSIVE|KNOWN|HELD|VIOLATED)" | cut -c1-260 | head -8
done
