#!/bin/bash
# Offline setup: nothing is fetched or compiled. Verifies the interpreter, the imports the
# monitors need, and that pyGAPS is imported from /repo's working tree.
set -e
cd "$(dirname "$0")/.."
export PYTHONPATH="${PYGAPS_REPO:-/repo}/src:$PWD"
/venv/bin/python - <<'PY'
import os, sys
import numpy, scipy, pandas, CoolProp, sqlite3
import pygaps
root = os.path.realpath(os.path.join(os.environ.get("PYGAPS_REPO", "/repo"), "src"))
assert os.path.realpath(pygaps.__file__).startswith(root), pygaps.__file__
assert hasattr(sys, "monitoring"), "python >= 3.12 needed for the reach monitor"
import pgverif.runner
print("setup ok: python %s, pygaps from %s" % (sys.version.split()[0], pygaps.__file__))
PY
mkdir -p evidence replays
